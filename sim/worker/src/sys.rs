//! Syscall seam: link-time interposition of the libc entry points Rust's std uses for file
//! I/O, terminal detection and randomness. The worker binary defines these symbols, so the
//! static linker binds std (and every crate linked into the binary) to them; they forward to
//! the kernel with `libc::syscall`. While a run is active on the calling thread they also
//!   * log every operation (path, flags, position, length, result),
//!   * capture what is written to fd 1 and to files whose data the oracle wants,
//!   * inject faults on sandbox files (errno, short write, EINTR, torn write + process death),
//!   * present chosen regular files as block devices (st_mode, ENOSPC past the end),
//!   * answer isatty(0) from the scripted stdin and getrandom from the run's tape seed.

#![allow(clippy::missing_safety_doc)]

use std::cell::Cell;
use std::collections::HashMap;
use std::ffi::CStr;

use libc::{c_char, c_int, c_long, c_uint, c_void, mode_t, off64_t, size_t, ssize_t};

#[derive(Clone, Copy, Debug, PartialEq, Eq)]
pub enum Op {
    Open,
    Close,
    Read,
    Write,
    Seek,
    Truncate,
    Stat,
    Unlink,
    Rename,
    Mkdir,
    Sync,
    CopyRange,
    Dup,
}

#[derive(Clone, Debug)]
pub struct SysEvent {
    pub op: Op,
    /// index into `SysState::paths` (usize::MAX: unknown fd)
    pub path: usize,
    pub fd: i32,
    /// open: flags; read/write: file position before the call; seek: offset; truncate: length
    pub a: i64,
    /// read/write: requested length; seek: whence
    pub b: i64,
    pub ret: i64,
    pub errno: i32,
    /// written bytes (only for paths with capture on) 
    pub data: Option<Vec<u8>>,
}

#[derive(Clone, Debug, PartialEq, Eq)]
pub enum FaultAction {
    /// fail with this errno, nothing written
    Errno(i32),
    /// write only this many bytes, return that count (a legal short write)
    Short(usize),
    /// write this many bytes, then fail with errno (what a full disk does to a large write)
    PartialThenErrno(usize, i32),
    /// EINTR once, nothing written (std retries)
    Eintr,
    /// process death: write this many bytes of the buffer (usize::MAX = all), then freeze the world
    Crash(usize),
}

#[derive(Clone, Debug)]
pub struct FaultRule {
    pub path: String,
    pub op: Op,
    /// fire on the n-th matching operation (0-based), counted per path and op
    pub nth: u64,
    pub action: FaultAction,
    pub fired: bool,
}

#[derive(Default, Clone, Debug)]
pub struct PathInfo {
    pub name: String,
    pub in_sandbox: bool,
    pub capture: bool,
    pub fake_blockdev: bool,
    pub writes: u64,
    pub reads: u64,
    /// open calls on this path so far
    pub opens: u64,
}

pub struct SysState {
    pub sandbox: String,
    pub paths: Vec<PathInfo>,
    pub path_index: HashMap<String, usize>,
    pub fds: HashMap<i32, usize>,
    pub log: Vec<SysEvent>,
    pub logging: bool,
    pub faults: Vec<FaultRule>,
    pub crashed: bool,
    pub stdout: Vec<u8>,
    pub stderr: Vec<u8>,
    pub capture_stdout: bool,
    pub stdin_is_tty: bool,
    pub rand_state: u64,
    pub fault_fired: Vec<(String, String)>,
    pub short_read_pct: u32,
    pub short_read_state: u64,
    pub short_reads: u64,
    pub stderr_passthrough: bool,
}

impl SysState {
    pub fn new(sandbox: &str, rand_seed: u64) -> Self {
        SysState {
            sandbox: sandbox.trim_end_matches('/').to_string(),
            paths: Vec::new(),
            path_index: HashMap::new(),
            fds: HashMap::new(),
            log: Vec::new(),
            logging: true,
            faults: Vec::new(),
            crashed: false,
            stdout: Vec::new(),
            stderr: Vec::new(),
            capture_stdout: true,
            stdin_is_tty: true,
            rand_state: rand_seed,
            fault_fired: Vec::new(),
            short_read_pct: 0,
            short_read_state: rand_seed ^ 0x5DEECE66D,
            short_reads: 0,
            stderr_passthrough: std::env::var_os("BITASIM_STDERR").is_some(),
        }
    }
    pub fn norm(&self, p: &str) -> (String, bool) {
        if let Some(rest) = p.strip_prefix(&self.sandbox) {
            let rest = rest.trim_start_matches('/');
            return (rest.to_string(), true);
        }
        if p.starts_with('/') {
            return (p.to_string(), false);
        }
        let mut q = p;
        while let Some(r) = q.strip_prefix("./") {
            q = r;
        }
        (q.to_string(), true)
    }
    pub fn path_id(&mut self, p: &str) -> usize {
        let (name, in_sandbox) = self.norm(p);
        if let Some(&i) = self.path_index.get(&name) {
            return i;
        }
        let i = self.paths.len();
        self.paths.push(PathInfo { name: name.clone(), in_sandbox, ..Default::default() });
        self.path_index.insert(name, i);
        i
    }
    pub fn path_mut(&mut self, p: &str) -> &mut PathInfo {
        let i = self.path_id(p);
        &mut self.paths[i]
    }
    pub fn path_name(&self, id: usize) -> &str {
        if id == usize::MAX {
            "?"
        } else {
            &self.paths[id].name
        }
    }
    pub fn add_fault(&mut self, path: &str, op: Op, nth: u64, action: FaultAction) {
        let (name, _) = self.norm(path);
        self.faults.push(FaultRule { path: name, op, nth, action, fired: false });
    }
    /// events on one path
    pub fn events_for<'a>(&'a self, path: &str) -> impl Iterator<Item = &'a SysEvent> + 'a {
        let (name, _) = self.norm(path);
        let id = self.path_index.get(&name).copied().unwrap_or(usize::MAX - 1);
        self.log.iter().filter(move |e| e.path == id)
    }
    fn next_rand(&mut self) -> u64 {
        simkit::prng::splitmix64(&mut self.rand_state)
    }
}

thread_local! {
    static STATE: Cell<*mut SysState> = const { Cell::new(std::ptr::null_mut()) };
    static IN_HOOK: Cell<bool> = const { Cell::new(false) };
}

/// Install the state for the run on this thread.
pub fn begin(st: Box<SysState>) {
    STATE.with(|s| {
        assert!(s.get().is_null());
        s.set(Box::into_raw(st));
    });
}

/// Remove and return it.
pub fn end() -> Box<SysState> {
    STATE.with(|s| {
        let p = s.replace(std::ptr::null_mut());
        assert!(!p.is_null());
        unsafe { Box::from_raw(p) }
    })
}

/// Access the state from harness code (not from inside a hook).
pub fn with<R>(f: impl FnOnce(&mut SysState) -> R) -> R {
    let p = STATE.with(|s| s.get());
    assert!(!p.is_null(), "no syscall state on this thread");
    let prev = IN_HOOK.with(|h| h.replace(true));
    let r = f(unsafe { &mut *p });
    IN_HOOK.with(|h| h.set(prev));
    r
}

pub fn active() -> bool {
    STATE.try_with(|s| !s.get().is_null()).unwrap_or(false)
}

/// the per-run context a pool helper thread inherits from the thread that starts a closure
pub fn context_capture() -> usize {
    STATE.try_with(|s| s.get() as usize).unwrap_or(0)
}
pub fn context_install(p: usize) {
    let _ = STATE.try_with(|s| s.set(p as *mut SysState));
    let _ = IN_HOOK.try_with(|h| h.set(false));
}

struct HookGuard;
impl Drop for HookGuard {
    fn drop(&mut self) {
        let _ = IN_HOOK.try_with(|h| h.set(false));
    }
}

/// Some(state) when a run is active on this thread and we are not already inside a hook.
#[inline]
fn enter() -> Option<(&'static mut SysState, HookGuard)> {
    let p = STATE.try_with(|s| s.get()).ok()?;
    if p.is_null() {
        return None;
    }
    let already = IN_HOOK.try_with(|h| h.replace(true)).ok()?;
    if already {
        return None;
    }
    Some((unsafe { &mut *p }, HookGuard))
}

#[inline]
unsafe fn set_errno(e: i32) {
    *libc::__errno_location() = e;
}
#[inline]
unsafe fn get_errno() -> i32 {
    *libc::__errno_location()
}

unsafe fn cur_pos(fd: c_int) -> i64 {
    let e = get_errno();
    let r = libc::syscall(libc::SYS_lseek, fd as c_long, 0 as c_long, libc::SEEK_CUR as c_long);
    set_errno(e);
    r as i64
}

unsafe fn file_len(fd: c_int) -> i64 {
    let e = get_errno();
    let mut st: libc::stat = std::mem::zeroed();
    let r = libc::syscall(libc::SYS_fstat, fd as c_long, &mut st as *mut libc::stat);
    set_errno(e);
    if r < 0 {
        -1
    } else {
        st.st_size as i64
    }
}

fn push_event(st: &mut SysState, ev: SysEvent) {
    if st.logging {
        st.log.push(ev);
    }
}

fn find_fault(st: &mut SysState, path: usize, op: Op, index: u64) -> Option<FaultAction> {
    if path == usize::MAX || st.faults.is_empty() {
        return None;
    }
    let name = &st.paths[path].name;
    for r in st.faults.iter_mut() {
        if !r.fired && r.op == op && r.nth == index && &r.path == name {
            r.fired = true;
            let a = r.action.clone();
            st.fault_fired.push((name.clone(), format!("{:?}@{:?}#{}", a, op, index)));
            let kind: &'static str = match &a {
                FaultAction::Errno(_) if op == Op::Read => "fault:ReadErrno",
                FaultAction::Errno(_) if op == Op::Unlink => "fault:UnlinkErrno",
                FaultAction::Errno(_) if op == Op::Open => "fault:OpenErrno",
                FaultAction::Errno(_) => "fault:WriteErrno",
                FaultAction::Short(_) => "fault:ShortWrite",
                FaultAction::PartialThenErrno(..) => "fault:PartialWriteThenErrno",
                FaultAction::Eintr => "fault:Eintr",
                FaultAction::Crash(_) if op == Op::Truncate => "fault:CrashAtResize",
                FaultAction::Crash(usize::MAX) => "fault:CrashAfterWrite",
                FaultAction::Crash(0) => "fault:CrashBeforeWrite",
                FaultAction::Crash(_) => "fault:CrashTornWrite",
            };
            simkit::try_with(|s| s.count(kind));
            return Some(a);
        }
    }
    None
}

fn crash_now(st: &mut SysState) {
    st.crashed = true;
    simkit::try_with(|s| {
        s.crashed = true;
        s.event("crash", 0, 0);
    });
}

// ---------------------------------------------------------------------------------------
// the interposed symbols
// ---------------------------------------------------------------------------------------

/// The clocks of a simulated thread show virtual time: std's `Instant` and `SystemTime` (timed
/// waits of channels and condition variables compute their deadlines from them) must agree with
/// the simulator's timers and must not leak real time into a run.
#[no_mangle]
pub unsafe extern "C" fn clock_gettime(clock: libc::clockid_t, tp: *mut libc::timespec) -> c_int {
    if !tp.is_null() && active() {
        if let Some(now) = simkit::try_with(|s| s.now_ns) {
            let base: u64 = match clock {
                libc::CLOCK_REALTIME | libc::CLOCK_REALTIME_COARSE => 1_700_000_000,
                _ => 1_000_000,
            };
            (*tp).tv_sec = (base + now / 1_000_000_000) as libc::time_t;
            (*tp).tv_nsec = (now % 1_000_000_000) as _;
            return 0;
        }
    }
    let r = simkit::threads::raw_syscall6(libc::SYS_clock_gettime as i64, clock as i64, tp as i64, 0, 0, 0, 0);
    if r < 0 {
        set_errno(-r as i32);
        -1
    } else {
        0
    }
}

/// libc's `syscall()`. Everything passes through unchanged except futex waits and wakes of
/// simulated threads (std's Mutex, Condvar, thread parking and therefore mpsc all end here):
/// those are virtual, see simkit::threads. (Declared with fixed arguments: on x86-64 a variadic
/// call passes integer arguments exactly like a fixed one.)
#[no_mangle]
pub unsafe extern "C" fn syscall(num: c_long, a1: c_long, a2: c_long, a3: c_long, a4: c_long, a5: c_long, a6: c_long) -> c_long {
    let mut virt: c_long = 0;
    if num == libc::SYS_futex {
        let op = (a2 as i32) & 0x7f;
        match op {
            0 | 9 => {
                // FUTEX_WAIT (relative timeout), FUTEX_WAIT_BITSET (absolute)
                let timeout = if a4 == 0 {
                    None
                } else {
                    let ts = &*(a4 as *const libc::timespec);
                    let ns = (ts.tv_sec as i128) * 1_000_000_000 + ts.tv_nsec as i128;
                    let rel = if op == 9 {
                        let clock = if (a2 as i32) & 256 != 0 { libc::CLOCK_REALTIME } else { libc::CLOCK_MONOTONIC };
                        let mut now: libc::timespec = std::mem::zeroed();
                        libc::clock_gettime(clock, &mut now);
                        ns - ((now.tv_sec as i128) * 1_000_000_000 + now.tv_nsec as i128)
                    } else {
                        ns
                    };
                    // (clock_gettime above is the interposed one: virtual time, no jitter)
                    Some(rel.max(0).min(u64::MAX as i128) as u64)
                };
                if let Some(r) = simkit::threads::futex_wait(a1 as usize, a3 as u32, timeout) {
                    if r == 0 {
                        return 0;
                    }
                    set_errno(r);
                    return -1;
                }
            }
            1 | 10 => {
                virt = simkit::threads::futex_wake(a1 as usize, a3 as u32) as c_long;
            }
            _ => {}
        }
    }
    let r = simkit::threads::raw_syscall6(num as i64, a1 as i64, a2 as i64, a3 as i64, a4 as i64, a5 as i64, a6 as i64);
    if (-4095..0).contains(&r) {
        set_errno(-r as i32);
        if virt > 0 {
            return virt;
        }
        -1
    } else {
        (r as c_long) + virt
    }
}

#[no_mangle]
pub unsafe extern "C" fn open64(path: *const c_char, flags: c_int, mode: mode_t) -> c_int {
    do_open(libc::AT_FDCWD, path, flags, mode)
}

#[no_mangle]
pub unsafe extern "C" fn open(path: *const c_char, flags: c_int, mode: mode_t) -> c_int {
    do_open(libc::AT_FDCWD, path, flags, mode)
}

#[no_mangle]
pub unsafe extern "C" fn openat64(dirfd: c_int, path: *const c_char, flags: c_int, mode: mode_t) -> c_int {
    do_open(dirfd, path, flags, mode)
}

#[no_mangle]
pub unsafe extern "C" fn openat(dirfd: c_int, path: *const c_char, flags: c_int, mode: mode_t) -> c_int {
    do_open(dirfd, path, flags, mode)
}

#[no_mangle]
pub unsafe extern "C" fn creat64(path: *const c_char, mode: mode_t) -> c_int {
    do_open(libc::AT_FDCWD, path, libc::O_CREAT | libc::O_WRONLY | libc::O_TRUNC, mode)
}

#[no_mangle]
pub unsafe extern "C" fn creat(path: *const c_char, mode: mode_t) -> c_int {
    do_open(libc::AT_FDCWD, path, libc::O_CREAT | libc::O_WRONLY | libc::O_TRUNC, mode)
}

unsafe fn raw_openat(dirfd: c_int, path: *const c_char, flags: c_int, mode: mode_t) -> c_int {
    libc::syscall(libc::SYS_openat, dirfd as c_long, path, flags as c_long, mode as c_long) as c_int
}

/// target of a symbolic link (one level), None when `path` is not a link
unsafe fn read_link_raw(dirfd: c_int, path: *const c_char) -> Option<String> {
    let e = get_errno();
    let mut buf = [0u8; 512];
    let n = libc::syscall(libc::SYS_readlinkat, dirfd as c_long, path, buf.as_mut_ptr(), buf.len() as c_long);
    set_errno(e);
    if n <= 0 {
        return None;
    }
    Some(String::from_utf8_lossy(&buf[..n as usize]).to_string())
}

unsafe fn do_open(dirfd: c_int, path: *const c_char, flags: c_int, mode: mode_t) -> c_int {
    let Some((st, _g)) = enter() else {
        return raw_openat(dirfd, path, flags, mode);
    };
    let p = CStr::from_ptr(path).to_string_lossy().to_string();
    let mut id = st.path_id(&p);
    // an unnamed temporary file (tempfile::tempfile()): what is opened is not the directory
    if flags & libc::O_TMPFILE == libc::O_TMPFILE {
        id = st.path_id("<anon-temp>");
    }
    // a symbolic link inside the sandbox (e.g. /dev/disk/by-* style names for a device): the
    // properties of the file it points to apply, unless the open itself does not follow links
    if st.paths[id].in_sandbox && flags & libc::O_NOFOLLOW == 0 {
        if let Some(target) = read_link_raw(dirfd, path) {
            id = st.path_id(&target);
        }
    }
    if st.crashed && st.paths[id].in_sandbox {
        set_errno(libc::EIO);
        return -1;
    }
    // a transient failure of this open (ETIMEDOUT / ESTALE on a network file system, EINTR)
    if let Some(FaultAction::Errno(e)) = find_fault(st, id, Op::Open, st.paths[id].opens) {
        st.paths[id].opens += 1;
        push_event(st, SysEvent { op: Op::Open, path: id, fd: -1, a: flags as i64, b: mode as i64, ret: -1, errno: e, data: None });
        set_errno(e);
        return -1;
    }
    st.paths[id].opens += 1;
    let mut eff_flags = flags;
    if st.paths[id].fake_blockdev {
        // a block device node always exists and is never truncated by O_TRUNC
        eff_flags &= !libc::O_TRUNC;
    }
    let fd = raw_openat(dirfd, path, eff_flags, mode);
    let errno = if fd < 0 { get_errno() } else { 0 };
    if fd >= 0 {
        st.fds.insert(fd, id);
    }
    push_event(st, SysEvent { op: Op::Open, path: id, fd, a: flags as i64, b: mode as i64, ret: fd as i64, errno, data: None });
    if fd < 0 {
        set_errno(errno);
    }
    fd
}

#[no_mangle]
pub unsafe extern "C" fn close(fd: c_int) -> c_int {
    if let Some((st, _g)) = enter() {
        if let Some(id) = st.fds.remove(&fd) {
            push_event(st, SysEvent { op: Op::Close, path: id, fd, a: 0, b: 0, ret: 0, errno: 0, data: None });
        }
    }
    libc::syscall(libc::SYS_close, fd as c_long) as c_int
}

#[no_mangle]
pub unsafe extern "C" fn read(fd: c_int, buf: *mut c_void, count: size_t) -> ssize_t {
    let Some((st, _g)) = enter() else {
        return libc::syscall(libc::SYS_read, fd as c_long, buf, count) as ssize_t;
    };
    let Some(&id) = st.fds.get(&fd) else {
        return libc::syscall(libc::SYS_read, fd as c_long, buf, count) as ssize_t;
    };
    if st.crashed {
        set_errno(libc::EIO);
        return -1;
    }
    let pos = cur_pos(fd);
    let index = st.paths[id].reads;
    st.paths[id].reads += 1;
    let mut n = count;
    match find_fault(st, id, Op::Read, index) {
        Some(FaultAction::Errno(e)) => {
            push_event(st, SysEvent { op: Op::Read, path: id, fd, a: pos, b: count as i64, ret: -1, errno: e, data: None });
            set_errno(e);
            return -1;
        }
        Some(FaultAction::Eintr) => {
            push_event(st, SysEvent { op: Op::Read, path: id, fd, a: pos, b: count as i64, ret: -1, errno: libc::EINTR, data: None });
            set_errno(libc::EINTR);
            return -1;
        }
        Some(FaultAction::Short(k)) => n = n.min(k.max(1)),
        _ => {}
    }
    if st.short_read_pct > 0 && count > 1 && st.paths[id].in_sandbox {
        let r = simkit::prng::splitmix64(&mut st.short_read_state);
        if (r % 100) < st.short_read_pct as u64 {
            // a fraction of what the file still holds (not of the buffer, which for the 1-2 MiB
            // buffers of tokio's File and the chunker is larger than most files here: such a
            // "short" read would still return everything)
            let left = file_len(fd) - pos;
            let span = if left > 1 { (left as u64).min(count as u64) } else { count as u64 };
            let k = 1 + ((r >> 8) % span) as usize;
            if k < n {
                n = k;
                st.short_reads += 1;
            }
        }
    }
    let r = libc::syscall(libc::SYS_read, fd as c_long, buf, n) as ssize_t;
    let errno = if r < 0 { get_errno() } else { 0 };
    push_event(st, SysEvent { op: Op::Read, path: id, fd, a: pos, b: count as i64, ret: r as i64, errno, data: None });
    if r < 0 {
        set_errno(errno);
    }
    r
}

unsafe fn raw_write(fd: c_int, buf: *const c_void, count: size_t) -> ssize_t {
    libc::syscall(libc::SYS_write, fd as c_long, buf, count) as ssize_t
}

#[no_mangle]
pub unsafe extern "C" fn write(fd: c_int, buf: *const c_void, count: size_t) -> ssize_t {
    let Some((st, _g)) = enter() else {
        return raw_write(fd, buf, count);
    };
    if fd == 1 && st.capture_stdout {
        st.stdout.extend_from_slice(std::slice::from_raw_parts(buf as *const u8, count));
        return count as ssize_t;
    }
    if fd == 2 && st.capture_stdout && !st.stderr_passthrough {
        // panic messages etc.: swallowed while a run is active; the tail is kept (what main()
        // prints about the error it exits with)
        st.stderr.extend_from_slice(std::slice::from_raw_parts(buf as *const u8, count));
        if st.stderr.len() > 8192 {
            let cut = st.stderr.len() - 4096;
            st.stderr.drain(..cut);
        }
        return count as ssize_t;
    }
    let id = match st.fds.get(&fd) {
        Some(&id) => id,
        None => {
            // a descriptor the seam did not see being opened: the tempfile crate opens its
            // anonymous file (O_TMPFILE, or create + unlink) with raw system calls. A regular
            // file without a name is adopted under the name "<anon-temp>", so that its writes
            // are logged and can be made to fail like those of any other file
            if fd <= 2 || !is_unnamed_regular_file(fd) {
                return raw_write(fd, buf, count);
            }
            let id = st.path_id("<anon-temp>");
            st.fds.insert(fd, id);
            id
        }
    };
    do_write(st, id, fd, buf, count)
}

unsafe fn is_unnamed_regular_file(fd: c_int) -> bool {
    let e = get_errno();
    let mut sb: libc::stat = std::mem::zeroed();
    let r = libc::syscall(libc::SYS_fstat, fd as c_long, &mut sb as *mut libc::stat);
    set_errno(e);
    r == 0 && (sb.st_mode & libc::S_IFMT) == libc::S_IFREG && sb.st_nlink == 0
}

unsafe fn do_write(st: &mut SysState, id: usize, fd: c_int, buf: *const c_void, count: size_t) -> ssize_t {
    if st.crashed {
        set_errno(libc::EIO);
        return -1;
    }
    let pos = cur_pos(fd);
    let index = st.paths[id].writes;
    st.paths[id].writes += 1;
    let capture = st.paths[id].capture;
    let mut n = count;
    let mut then_errno: Option<i32> = None;
    let mut crash_after = false;
    match find_fault(st, id, Op::Write, index) {
        Some(FaultAction::Errno(e)) => {
            push_event(st, SysEvent { op: Op::Write, path: id, fd, a: pos, b: count as i64, ret: -1, errno: e, data: None });
            set_errno(e);
            return -1;
        }
        Some(FaultAction::Eintr) => {
            push_event(st, SysEvent { op: Op::Write, path: id, fd, a: pos, b: count as i64, ret: -1, errno: libc::EINTR, data: None });
            set_errno(libc::EINTR);
            return -1;
        }
        Some(FaultAction::Short(k)) => n = n.min(k.max(1)),
        Some(FaultAction::PartialThenErrno(k, e)) => {
            n = n.min(k);
            then_errno = Some(e);
        }
        Some(FaultAction::Crash(k)) => {
            n = n.min(k);
            crash_after = true;
        }
        None => {}
    }
    // a block device has a fixed size: writing past its end fails with ENOSPC
    if st.paths[id].fake_blockdev && pos >= 0 {
        let len = file_len(fd);
        if len >= 0 {
            let room = (len - pos).max(0) as usize;
            if room < n {
                n = room;
                if n == 0 && then_errno.is_none() && !crash_after {
                    push_event(st, SysEvent { op: Op::Write, path: id, fd, a: pos, b: count as i64, ret: -1, errno: libc::ENOSPC, data: None });
                    set_errno(libc::ENOSPC);
                    return -1;
                }
            }
        }
    }
    let r = if n == 0 && (then_errno.is_some() || crash_after) { 0 } else { raw_write(fd, buf, n) };
    let mut errno = if r < 0 { get_errno() } else { 0 };
    let data = if capture && r > 0 { Some(std::slice::from_raw_parts(buf as *const u8, r as usize).to_vec()) } else { None };
    let mut ret = r;
    if crash_after {
        push_event(st, SysEvent { op: Op::Write, path: id, fd, a: pos, b: count as i64, ret: r as i64, errno: 0, data });
        crash_now(st);
        set_errno(libc::EIO);
        return -1;
    }
    if let Some(e) = then_errno {
        if r <= 0 {
            ret = -1;
            errno = e;
        }
        // r > 0: a real kernel reports the partial count now and the error on the next call;
        // arm a one-shot error for the next write to this path
        if r > 0 {
            let next = st.paths[id].writes;
            let name = st.paths[id].name.clone();
            st.faults.push(FaultRule { path: name, op: Op::Write, nth: next, action: FaultAction::Errno(e), fired: false });
        }
    }
    push_event(st, SysEvent { op: Op::Write, path: id, fd, a: pos, b: count as i64, ret: ret as i64, errno, data });
    if ret < 0 {
        set_errno(errno);
    }
    ret
}

#[no_mangle]
pub unsafe extern "C" fn writev(fd: c_int, iov: *const libc::iovec, iovcnt: c_int) -> ssize_t {
    // funnel through write() so that every rule applies: write the first non-empty buffer
    if active() && iovcnt > 0 {
        for i in 0..iovcnt as isize {
            let v = &*iov.offset(i);
            if v.iov_len > 0 {
                return write(fd, v.iov_base, v.iov_len);
            }
        }
        return 0;
    }
    libc::syscall(libc::SYS_writev, fd as c_long, iov, iovcnt as c_long) as ssize_t
}

#[no_mangle]
pub unsafe extern "C" fn readv(fd: c_int, iov: *const libc::iovec, iovcnt: c_int) -> ssize_t {
    if active() && iovcnt > 0 {
        for i in 0..iovcnt as isize {
            let v = &*iov.offset(i);
            if v.iov_len > 0 {
                return read(fd, v.iov_base, v.iov_len);
            }
        }
        return 0;
    }
    libc::syscall(libc::SYS_readv, fd as c_long, iov, iovcnt as c_long) as ssize_t
}

#[no_mangle]
pub unsafe extern "C" fn pwrite64(fd: c_int, buf: *const c_void, count: size_t, offset: off64_t) -> ssize_t {
    if let Some((st, _g)) = enter() {
        if let Some(&id) = st.fds.get(&fd) {
            if st.crashed {
                set_errno(libc::EIO);
                return -1;
            }
            st.paths[id].writes += 1;
            let r = libc::syscall(libc::SYS_pwrite64, fd as c_long, buf, count, offset) as ssize_t;
            let errno = if r < 0 { get_errno() } else { 0 };
            let data = if st.paths[id].capture && r > 0 { Some(std::slice::from_raw_parts(buf as *const u8, r as usize).to_vec()) } else { None };
            push_event(st, SysEvent { op: Op::Write, path: id, fd, a: offset, b: count as i64, ret: r as i64, errno, data });
            if r < 0 {
                set_errno(errno);
            }
            return r;
        }
    }
    libc::syscall(libc::SYS_pwrite64, fd as c_long, buf, count, offset) as ssize_t
}

#[no_mangle]
pub unsafe extern "C" fn pread64(fd: c_int, buf: *mut c_void, count: size_t, offset: off64_t) -> ssize_t {
    if let Some((st, _g)) = enter() {
        if let Some(&id) = st.fds.get(&fd) {
            st.paths[id].reads += 1;
            let r = libc::syscall(libc::SYS_pread64, fd as c_long, buf, count, offset) as ssize_t;
            let errno = if r < 0 { get_errno() } else { 0 };
            push_event(st, SysEvent { op: Op::Read, path: id, fd, a: offset, b: count as i64, ret: r as i64, errno, data: None });
            if r < 0 {
                set_errno(errno);
            }
            return r;
        }
    }
    libc::syscall(libc::SYS_pread64, fd as c_long, buf, count, offset) as ssize_t
}

#[no_mangle]
pub unsafe extern "C" fn lseek64(fd: c_int, offset: off64_t, whence: c_int) -> off64_t {
    let r = libc::syscall(libc::SYS_lseek, fd as c_long, offset, whence as c_long) as off64_t;
    if let Some((st, _g)) = enter() {
        if let Some(&id) = st.fds.get(&fd) {
            let errno = if r < 0 { get_errno() } else { 0 };
            push_event(st, SysEvent { op: Op::Seek, path: id, fd, a: offset, b: whence as i64, ret: r, errno, data: None });
            if r < 0 {
                set_errno(errno);
            }
        }
    }
    r
}

#[no_mangle]
pub unsafe extern "C" fn lseek(fd: c_int, offset: off64_t, whence: c_int) -> off64_t {
    lseek64(fd, offset, whence)
}

#[no_mangle]
pub unsafe extern "C" fn ftruncate64(fd: c_int, length: off64_t) -> c_int {
    if let Some((st, _g)) = enter() {
        if let Some(&id) = st.fds.get(&fd) {
            if st.crashed {
                set_errno(libc::EIO);
                return -1;
            }
            if st.paths[id].fake_blockdev {
                push_event(st, SysEvent { op: Op::Truncate, path: id, fd, a: length, b: 0, ret: -1, errno: libc::EINVAL, data: None });
                set_errno(libc::EINVAL);
                return -1;
            }
            match find_fault(st, id, Op::Truncate, 0) {
                Some(FaultAction::Errno(e)) => {
                    push_event(st, SysEvent { op: Op::Truncate, path: id, fd, a: length, b: 0, ret: -1, errno: e, data: None });
                    set_errno(e);
                    return -1;
                }
                Some(FaultAction::Crash(_)) => {
                    // process death between the last write and the resize
                    push_event(st, SysEvent { op: Op::Truncate, path: id, fd, a: length, b: 0, ret: -1, errno: libc::EIO, data: None });
                    crash_now(st);
                    set_errno(libc::EIO);
                    return -1;
                }
                _ => {}
            }
            let r = libc::syscall(libc::SYS_ftruncate, fd as c_long, length) as c_int;
            let errno = if r < 0 { get_errno() } else { 0 };
            push_event(st, SysEvent { op: Op::Truncate, path: id, fd, a: length, b: 0, ret: r as i64, errno, data: None });
            if r < 0 {
                set_errno(errno);
            }
            return r;
        }
    }
    libc::syscall(libc::SYS_ftruncate, fd as c_long, length) as c_int
}

#[no_mangle]
pub unsafe extern "C" fn ftruncate(fd: c_int, length: off64_t) -> c_int {
    ftruncate64(fd, length)
}

unsafe fn patch_statx(st: &mut SysState, id: usize, buf: *mut libc::statx) {
    if id != usize::MAX && st.paths[id].fake_blockdev {
        let b = &mut *buf;
        b.stx_mode = (b.stx_mode & !(libc::S_IFMT as u16)) | (libc::S_IFBLK as u16);
        // like a real block device: stat reports no size (the size is what seeking to the end says)
        b.stx_size = 0;
    }
}

#[no_mangle]
pub unsafe extern "C" fn statx(dirfd: c_int, path: *const c_char, flags: c_int, mask: c_uint, buf: *mut libc::statx) -> c_int {
    let r = libc::syscall(libc::SYS_statx, dirfd as c_long, path, flags as c_long, mask as c_long, buf) as c_int;
    if let Some((st, _g)) = enter() {
        let errno = if r < 0 { get_errno() } else { 0 };
        let empty = path.is_null() || *path == 0;
        let id = if empty {
            st.fds.get(&dirfd).copied().unwrap_or(usize::MAX)
        } else {
            let p = CStr::from_ptr(path).to_string_lossy().to_string();
            let mut id = st.path_id(&p);
            if st.paths[id].in_sandbox && flags & libc::AT_SYMLINK_NOFOLLOW == 0 {
                if let Some(target) = read_link_raw(dirfd, path) {
                    id = st.path_id(&target);
                }
            }
            id
        };
        if r == 0 {
            patch_statx(st, id, buf);
        }
        if id != usize::MAX {
            push_event(st, SysEvent { op: Op::Stat, path: id, fd: if empty { dirfd } else { -1 }, a: 0, b: 0, ret: r as i64, errno, data: None });
        }
        if r < 0 {
            set_errno(errno);
        }
    }
    r
}

#[no_mangle]
pub unsafe extern "C" fn fstat64(fd: c_int, buf: *mut libc::stat64) -> c_int {
    let r = libc::syscall(libc::SYS_fstat, fd as c_long, buf) as c_int;
    if let Some((st, _g)) = enter() {
        if let Some(&id) = st.fds.get(&fd) {
            if r == 0 && st.paths[id].fake_blockdev {
                let b = &mut *buf;
                b.st_mode = (b.st_mode & !libc::S_IFMT) | libc::S_IFBLK;
                b.st_size = 0;
            }
            push_event(st, SysEvent { op: Op::Stat, path: id, fd, a: 0, b: 0, ret: r as i64, errno: 0, data: None });
        }
    }
    r
}

#[no_mangle]
pub unsafe extern "C" fn fstat(fd: c_int, buf: *mut libc::stat64) -> c_int {
    fstat64(fd, buf)
}

#[no_mangle]
pub unsafe extern "C" fn unlink(path: *const c_char) -> c_int {
    if let Some((st, _g)) = enter() {
        let p = CStr::from_ptr(path).to_string_lossy().to_string();
        let id = st.path_id(&p);
        if st.crashed && st.paths[id].in_sandbox {
            set_errno(libc::EIO);
            return -1;
        }
        if let Some(FaultAction::Errno(e)) = find_fault(st, id, Op::Unlink, 0) {
            push_event(st, SysEvent { op: Op::Unlink, path: id, fd: -1, a: 0, b: 0, ret: -1, errno: e, data: None });
            set_errno(e);
            return -1;
        }
        let r = libc::syscall(libc::SYS_unlink, path) as c_int;
        let errno = if r < 0 { get_errno() } else { 0 };
        push_event(st, SysEvent { op: Op::Unlink, path: id, fd: -1, a: 0, b: 0, ret: r as i64, errno, data: None });
        if r < 0 {
            set_errno(errno);
        }
        return r;
    }
    libc::syscall(libc::SYS_unlink, path) as c_int
}

#[no_mangle]
pub unsafe extern "C" fn unlinkat(dirfd: c_int, path: *const c_char, flags: c_int) -> c_int {
    if let Some((st, _g)) = enter() {
        let p = CStr::from_ptr(path).to_string_lossy().to_string();
        let id = st.path_id(&p);
        if st.crashed && st.paths[id].in_sandbox {
            set_errno(libc::EIO);
            return -1;
        }
        if let Some(FaultAction::Errno(e)) = find_fault(st, id, Op::Unlink, 0) {
            push_event(st, SysEvent { op: Op::Unlink, path: id, fd: -1, a: flags as i64, b: 0, ret: -1, errno: e, data: None });
            set_errno(e);
            return -1;
        }
        let r = libc::syscall(libc::SYS_unlinkat, dirfd as c_long, path, flags as c_long) as c_int;
        let errno = if r < 0 { get_errno() } else { 0 };
        push_event(st, SysEvent { op: Op::Unlink, path: id, fd: -1, a: flags as i64, b: 0, ret: r as i64, errno, data: None });
        if r < 0 {
            set_errno(errno);
        }
        return r;
    }
    libc::syscall(libc::SYS_unlinkat, dirfd as c_long, path, flags as c_long) as c_int
}

#[no_mangle]
pub unsafe extern "C" fn rename(from: *const c_char, to: *const c_char) -> c_int {
    if let Some((st, _g)) = enter() {
        let p = CStr::from_ptr(from).to_string_lossy().to_string();
        let q = CStr::from_ptr(to).to_string_lossy().to_string();
        let id = st.path_id(&p);
        let id2 = st.path_id(&q);
        if st.crashed {
            set_errno(libc::EIO);
            return -1;
        }
        let r = libc::syscall(libc::SYS_rename, from, to) as c_int;
        let errno = if r < 0 { get_errno() } else { 0 };
        push_event(st, SysEvent { op: Op::Rename, path: id, fd: -1, a: id2 as i64, b: 0, ret: r as i64, errno, data: None });
        if r < 0 {
            set_errno(errno);
        }
        return r;
    }
    libc::syscall(libc::SYS_rename, from, to) as c_int
}

#[no_mangle]
pub unsafe extern "C" fn mkdir(path: *const c_char, mode: mode_t) -> c_int {
    if let Some((st, _g)) = enter() {
        let p = CStr::from_ptr(path).to_string_lossy().to_string();
        let id = st.path_id(&p);
        let r = libc::syscall(libc::SYS_mkdir, path, mode as c_long) as c_int;
        let errno = if r < 0 { get_errno() } else { 0 };
        push_event(st, SysEvent { op: Op::Mkdir, path: id, fd: -1, a: 0, b: 0, ret: r as i64, errno, data: None });
        if r < 0 {
            set_errno(errno);
        }
        return r;
    }
    libc::syscall(libc::SYS_mkdir, path, mode as c_long) as c_int
}

#[no_mangle]
pub unsafe extern "C" fn fsync(fd: c_int) -> c_int {
    if let Some((st, _g)) = enter() {
        if let Some(&id) = st.fds.get(&fd) {
            push_event(st, SysEvent { op: Op::Sync, path: id, fd, a: 0, b: 0, ret: 0, errno: 0, data: None });
        }
    }
    libc::syscall(libc::SYS_fsync, fd as c_long) as c_int
}

#[no_mangle]
pub unsafe extern "C" fn fdatasync(fd: c_int) -> c_int {
    if let Some((st, _g)) = enter() {
        if let Some(&id) = st.fds.get(&fd) {
            push_event(st, SysEvent { op: Op::Sync, path: id, fd, a: 1, b: 0, ret: 0, errno: 0, data: None });
        }
    }
    libc::syscall(libc::SYS_fdatasync, fd as c_long) as c_int
}

/// std::io::copy between two files tries copy_file_range / sendfile / splice first. Refuse
/// them for tracked files (EXDEV / EINVAL are the documented "fall back to read+write"
/// answers) so that the copy goes through read() and write() above, where faults and
/// logging live.
#[no_mangle]
pub unsafe extern "C" fn copy_file_range(
    fd_in: c_int,
    off_in: *mut off64_t,
    fd_out: c_int,
    off_out: *mut off64_t,
    len: size_t,
    flags: c_uint,
) -> ssize_t {
    if let Some((st, _g)) = enter() {
        if st.fds.contains_key(&fd_in) || st.fds.contains_key(&fd_out) {
            let id = st.fds.get(&fd_out).copied().unwrap_or(usize::MAX);
            push_event(st, SysEvent { op: Op::CopyRange, path: id, fd: fd_out, a: fd_in as i64, b: len as i64, ret: -1, errno: libc::EXDEV, data: None });
            set_errno(libc::EXDEV);
            return -1;
        }
    }
    libc::syscall(libc::SYS_copy_file_range, fd_in as c_long, off_in, fd_out as c_long, off_out, len, flags as c_long) as ssize_t
}

#[no_mangle]
pub unsafe extern "C" fn sendfile64(out_fd: c_int, in_fd: c_int, offset: *mut off64_t, count: size_t) -> ssize_t {
    if let Some((st, _g)) = enter() {
        if st.fds.contains_key(&in_fd) || st.fds.contains_key(&out_fd) {
            set_errno(libc::EINVAL);
            return -1;
        }
    }
    libc::syscall(libc::SYS_sendfile, out_fd as c_long, in_fd as c_long, offset, count) as ssize_t
}

#[no_mangle]
pub unsafe extern "C" fn sendfile(out_fd: c_int, in_fd: c_int, offset: *mut off64_t, count: size_t) -> ssize_t {
    sendfile64(out_fd, in_fd, offset, count)
}

#[no_mangle]
pub unsafe extern "C" fn splice(
    fd_in: c_int,
    off_in: *mut off64_t,
    fd_out: c_int,
    off_out: *mut off64_t,
    len: size_t,
    flags: c_uint,
) -> ssize_t {
    if let Some((st, _g)) = enter() {
        if st.fds.contains_key(&fd_in) || st.fds.contains_key(&fd_out) {
            set_errno(libc::EINVAL);
            return -1;
        }
    }
    libc::syscall(libc::SYS_splice, fd_in as c_long, off_in, fd_out as c_long, off_out, len, flags as c_long) as ssize_t
}

#[no_mangle]
pub unsafe extern "C" fn isatty(fd: c_int) -> c_int {
    if let Some((st, _g)) = enter() {
        if fd == 0 {
            if st.stdin_is_tty {
                return 1;
            }
            set_errno(libc::ENOTTY);
            return 0;
        }
        if fd == 1 || fd == 2 {
            set_errno(libc::ENOTTY);
            return 0;
        }
    }
    let mut t: libc::termios = std::mem::zeroed();
    if libc::syscall(libc::SYS_ioctl, fd as c_long, libc::TCGETS as c_long, &mut t as *mut libc::termios) == 0 {
        1
    } else {
        0
    }
}

/// std seeds `RandomState` (HashMap iteration order) from here, once per thread. During a run
/// the bytes are a function of the run's tape seed, so hash order is replayable and is one
/// more dimension the seeds explore.
#[no_mangle]
pub unsafe extern "C" fn getrandom(buf: *mut c_void, buflen: size_t, flags: c_uint) -> ssize_t {
    if let Some((st, _g)) = enter() {
        let out = std::slice::from_raw_parts_mut(buf as *mut u8, buflen);
        for chunk in out.chunks_mut(8) {
            let v = st.next_rand().to_le_bytes();
            let n = chunk.len();
            chunk.copy_from_slice(&v[..n]);
        }
        return buflen as ssize_t;
    }
    libc::syscall(libc::SYS_getrandom, buf, buflen, flags as c_long) as ssize_t
}


// ---- exit(3) -------------------------------------------------------------------------------
// A simulated `main()` that ends its process with `std::process::exit` must end the simulated
// process, not the worker: while `IN_SIM_MAIN` is set on the calling thread, exit() unwinds to
// the harness with the status the parent would see (the low eight bits).

thread_local! {
    pub static IN_SIM_MAIN: Cell<bool> = const { Cell::new(false) };
}

/// payload of the unwinding started by exit() inside a simulated main()
pub struct SimExit(pub i32);

#[no_mangle]
pub unsafe extern "C-unwind" fn exit(code: c_int) -> ! {
    if IN_SIM_MAIN.with(|c| c.get()) {
        std::panic::resume_unwind(Box::new(SimExit(code & 0xff)));
    }
    let real = libc::dlsym(libc::RTLD_NEXT, b"exit\0".as_ptr() as *const c_char);
    if real.is_null() {
        libc::_exit(code);
    }
    let real: unsafe extern "C" fn(c_int) -> ! = std::mem::transmute(real);
    real(code)
}
