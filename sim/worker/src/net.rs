//! Scripted HTTP servers for the simulated network.

use std::sync::{Arc, Mutex};

use simkit::net::{BodyEnd, ReqInfo, ResponsePlan};
use simkit::Tape;

#[derive(Clone, Debug, PartialEq, Eq)]
pub enum NetFault {
    /// connection refused / reset before any response
    Refuse,
    /// deliver this many body bytes, then a transport error
    CutAfter(usize),
    /// deliver this many body bytes, then a clean end of body
    EarlyEof(usize),
    /// a clean end of body at the first of these absolute offsets of the resource that lies
    /// inside the requested range (a short but well-formed response that ends on a boundary the
    /// caller cares about: the end of a chunk); a request that contains none is served in full
    EarlyEofAtOneOf(Vec<u64>),
    /// append this many extra bytes after the requested range
    Extra(usize),
    /// the body has the requested length but wrong content (an error page)
    ErrorPage,
    /// flip one bit of the body at this offset (mod length)
    FlipBit(usize),
    /// ignore the Range header: send the whole resource from byte 0
    IgnoreRange,
    /// never finish the body
    Stall(usize),
    /// empty body, status 500
    Empty,
    /// correct body, but the Content-Length header announces this many bytes
    LieContentLength(u64),
    /// the requested bytes, then junk without end
    Endless,
}

#[derive(Clone, Copy, Debug, PartialEq, Eq)]
pub enum BodyFrag {
    /// the whole body in one fragment
    One,
    /// fragments of at most k bytes
    Max(usize),
    /// fragments of 1..=k bytes drawn each time
    Random(usize),
}

#[derive(Clone, Debug)]
pub struct LoggedRequest {
    pub range: Option<String>,
    /// parsed inclusive range
    pub parsed: Option<(u64, u64)>,
    pub time_ns: u64,
    pub fault: Option<NetFault>,
    pub headers: Vec<(String, String)>,
}

pub struct Server {
    pub content: Arc<Vec<u8>>,
    pub frag: BodyFrag,
    /// upper bound of the per-fragment delay in ns (0 = none)
    pub max_delay_ns: u64,
    /// fault for the i-th request (None = behave)
    pub script: Vec<Option<NetFault>>,
    /// fault for every request beyond the script (a server that never recovers)
    pub default_fault: Option<NetFault>,
    pub log: Vec<LoggedRequest>,
    /// a request without this header (name, value) is answered with 401 and an error page: a
    /// server that wants the --http-header credentials on every request, retries included
    pub require_header: Option<(String, String)>,
    /// after this many requests the server serves other content (the file was replaced, a proxy
    /// went stale): (requests served from `content`, the new content)
    pub switch_after: Option<(usize, Arc<Vec<u8>>)>,
}

pub type SharedServer = Arc<Mutex<Server>>;

pub fn parse_range(s: &str) -> Option<(u64, u64)> {
    let r = s.strip_prefix("bytes=")?;
    let (a, b) = r.split_once('-')?;
    Some((a.parse().ok()?, b.parse().ok()?))
}

fn fragment(body: &[u8], frag: BodyFrag, max_delay_ns: u64, tape: &mut Tape) -> Vec<(u64, Vec<u8>)> {
    let mut out = Vec::new();
    let mut i = 0;
    // at most ~1500 fragments per body: tiny fragments are for small bodies
    let floor = (body.len() / 1500 + 1).min(256 * 1024);
    while i < body.len() {
        let rem = body.len() - i;
        let n = match frag {
            // a real client hands out at most a read buffer at a time
            BodyFrag::One => rem.min(256 * 1024),
            BodyFrag::Max(k) => rem.min(k.max(floor)).min(256 * 1024),
            BodyFrag::Random(k) => (floor - 1 + 1 + tape.draw(rem.min(k.max(1)) as u32) as usize).min(rem),
        };
        let delay = if max_delay_ns == 0 { 0 } else { tape.draw(4) as u64 * (max_delay_ns / 4) };
        out.push((delay, body[i..i + n].to_vec()));
        i += n;
    }
    out
}

impl Server {
    pub fn new(content: Arc<Vec<u8>>) -> Self {
        Server { content, frag: BodyFrag::One, max_delay_ns: 0, script: Vec::new(), default_fault: None, log: Vec::new(), require_header: None, switch_after: None }
    }

    fn handle(&mut self, req: &ReqInfo, tape: &mut Tape) -> ResponsePlan {
        let idx = self.log.len();
        let fault = match self.script.get(idx) {
            Some(f) => f.clone(),
            None => self.default_fault.clone(),
        };
        // keep the log of a never-ending exchange bounded
        if self.log.len() > 100_000 {
            self.log.truncate(1000);
        }
        let parsed = req.range.as_deref().and_then(parse_range);
        self.log.push(LoggedRequest { range: req.range.clone(), parsed, time_ns: req.time_ns, fault: fault.clone(), headers: req.headers.clone() });
        if let Some((n, other)) = &self.switch_after {
            if idx >= *n {
                self.content = other.clone();
                self.switch_after = None;
                simkit::try_with(|s| s.count("net-content-switched"));
            }
        }
        let len = self.content.len() as u64;
        let mut status = 206;
        let mut body: Vec<u8> = match parsed {
            Some((a, b)) if a <= b && a < len => self.content[a as usize..=(b.min(len - 1)) as usize].to_vec(),
            Some(_) => {
                status = 416;
                Vec::new()
            }
            None => {
                status = 200;
                self.content.to_vec()
            }
        };
        if let Some((name, value)) = &self.require_header {
            let ok = req.headers.iter().any(|(k, v)| k.eq_ignore_ascii_case(name) && v == value);
            if !ok {
                simkit::try_with(|s| s.count("http-401-required-header-missing"));
                status = 401;
                let page = b"401 Unauthorized\n";
                for (i, b) in body.iter_mut().enumerate() {
                    *b = page[i % page.len()];
                }
            }
        }
        let mut end = BodyEnd::Eof;
        let mut tail: Option<(usize, u64)> = None;
        let mut lie: Option<u64> = None;
        if let Some(f) = &fault {
            simkit::try_with(|s| s.count("net-fault"));
        }
        match fault {
            None => {}
            Some(NetFault::Refuse) => return ResponsePlan::refused("connection refused"),
            Some(NetFault::CutAfter(c)) => {
                body.truncate(c);
                end = BodyEnd::Error("connection reset by peer".into());
            }
            Some(NetFault::EarlyEof(c)) => body.truncate(c),
            Some(NetFault::EarlyEofAtOneOf(list)) => {
                if let Some((a, _)) = parsed {
                    if let Some(cut) = list.iter().filter(|&&o| o > a && ((o - a) as usize) < body.len()).min() {
                        body.truncate((cut - a) as usize);
                        simkit::try_with(|s| s.count("net-short-body-ends-on-a-chunk-boundary"));
                    }
                }
            }
            Some(NetFault::Extra(k)) => {
                if k <= 4096 {
                    body.extend(std::iter::repeat(0xEE).take(k));
                } else {
                    // produced lazily by the body: the harness never holds it
                    tail = Some((65536, (k / 65536) as u64 + 1));
                }
            }
            Some(NetFault::ErrorPage) => {
                status = 503;
                let page = b"<html><body>503 Service Unavailable</body></html>\n";
                for (i, b) in body.iter_mut().enumerate() {
                    *b = page[i % page.len()];
                }
            }
            Some(NetFault::FlipBit(o)) => {
                if !body.is_empty() {
                    let n = body.len();
                    body[o % n] ^= 1 << (o % 8);
                }
            }
            Some(NetFault::IgnoreRange) => {
                status = 200;
                body = self.content.to_vec();
            }
            Some(NetFault::Stall(c)) => {
                body.truncate(c);
                end = BodyEnd::Stall;
            }
            Some(NetFault::Empty) => {
                status = 500;
                body.clear();
            }
            Some(NetFault::LieContentLength(n)) => lie = Some(n),
            Some(NetFault::Endless) => {
                tail = Some((65536, u64::MAX));
                lie = None;
            }
        }
        let content_length = if tail.map(|t| t.1 == u64::MAX).unwrap_or(false) { None } else { lie.or(Some(body.len() as u64)) };
        let fragments = fragment(&body, self.frag, self.max_delay_ns, tape);
        ResponsePlan {
            connect: Ok(()),
            connect_delay_ns: if self.max_delay_ns == 0 { 0 } else { tape.draw(3) as u64 * (self.max_delay_ns / 2) },
            status,
            fragments,
            end,
            end_delay_ns: 0,
            tail,
            content_length,
        }
    }
}

/// Install `server` as the handler of every request of this run.
pub fn install(server: Server) -> SharedServer {
    let shared = Arc::new(Mutex::new(server));
    let s2 = shared.clone();
    simkit::with(|s| {
        s.net.handler = Some(Box::new(move |req, tape| s2.lock().unwrap().handle(req, tape)));
    });
    shared
}

pub fn uninstall() {
    simkit::with(|s| s.net.handler = None);
}

pub fn draw_body_frag() -> BodyFrag {
    simkit::with(|s| match s.tape.weighted(&[3, 2, 2, 2]) {
        0 => BodyFrag::One,
        1 => BodyFrag::Max(*s.tape.pick(&[16384usize, 1, 2, 7, 1460, 4096, 65536])),
        2 => BodyFrag::Random(1 + s.tape.draw(64) as usize),
        _ => BodyFrag::Random(1 + s.tape.draw(16384) as usize),
    })
}

pub fn draw_delay() -> u64 {
    simkit::with(|s| *s.tape.pick(&[0u64, 0, 1_000_000, 50_000_000, 2_000_000_000]))
}

