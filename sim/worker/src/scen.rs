//! Building blocks shared by the properties: compress / clone through the CLI (L2) or the
//! library API (L1), sandbox file helpers, schedule parameters.

use std::collections::BTreeMap;
use std::sync::Arc;

use bitar::archive_reader::{ArchiveReader, HttpReader, IoReader};
use bitar::{Archive, ChunkIndex, CloneOutput};
use futures_util::StreamExt;
use serde_json::{json, Value};
use simkit::exec::End;

use crate::cli::{outcome_of, run_async, run_cli, CmdResult, Outcome};
use crate::gen::{self, Cfg, Comp};
use crate::net::{self, Server, SharedServer};
use crate::simio::{SimFile, SimSink, SimSource};
use crate::sys;

pub const URL: &str = "http://sim.test/archive.cba";

/// harness file I/O that must not show up in the syscall log or meet faults
pub fn quiet<R>(f: impl FnOnce() -> R) -> R {
    let prev = sys::with(|s| {
        let p = (s.logging, std::mem::take(&mut s.faults), s.short_read_pct);
        s.logging = false;
        s.short_read_pct = 0;
        p
    });
    let r = f();
    sys::with(|s| {
        s.logging = prev.0;
        s.faults = prev.1;
        s.short_read_pct = prev.2;
    });
    r
}

pub fn put_file(name: &str, data: &[u8]) {
    quiet(|| std::fs::write(name, data).expect("sandbox write"));
}

pub fn get_file(name: &str) -> Option<Vec<u8>> {
    quiet(|| std::fs::read(name).ok())
}

pub fn exists(name: &str) -> bool {
    quiet(|| std::path::Path::new(name).exists())
}

/// (name, length, blake2 prefix) of every file in the sandbox
pub fn listing() -> BTreeMap<String, (u64, String)> {
    quiet(|| {
        let mut m = BTreeMap::new();
        if let Ok(rd) = std::fs::read_dir(".") {
            for e in rd.flatten() {
                let name = e.file_name().to_string_lossy().to_string();
                if let Ok(data) = std::fs::read(e.path()) {
                    m.insert(name, (data.len() as u64, gen::hex(&gen::blake2b512(&data)[..8])));
                }
            }
        }
        m
    })
}

/// Draw the scheduling parameters of the next command: from "pool infinitely fast" to
/// "pool infinitely slow".
pub fn draw_schedule() -> Value {
    simkit::with(|s| {
        let eager = *s.tape.pick(&[100u32, 0, 10, 50, 90]);
        let fifo = s.tape.draw(2) == 0;
        let detached = s.tape.draw(2) == 0;
        s.sched.eager_pct = eager;
        s.sched.fifo = fifo;
        s.sched.run_detached_at_shutdown = detached;
        s.event("sched-params", eager as u64, fifo as u64);
        json!({"eager_pct": eager, "fifo": fifo})
    })
}

pub fn set_schedule(eager: u32, fifo: bool) {
    simkit::with(|s| {
        s.sched.eager_pct = eager;
        s.sched.fifo = fifo;
        s.sched.run_detached_at_shutdown = true;
    });
}

pub fn set_stdin(data: Option<Vec<u8>>) {
    let tty = data.is_none();
    simkit::with(|s| s.stdin = data.map(|d| simkit::StdinScript { data: d, pos: 0, is_tty: false, fail_at: None }));
    sys::with(|s| s.stdin_is_tty = tty);
}

/// short reads on sandbox files at the syscall seam (x% of reads return fewer bytes)
pub fn draw_short_reads() -> u32 {
    let pct = simkit::with(|s| *s.tape.pick(&[0u32, 0, 0, 20, 80]));
    sys::with(|s| s.short_read_pct = pct);
    pct
}

#[derive(Clone, Debug)]
pub struct CompressSpec {
    pub cfg: Cfg,
    pub comp: Comp,
    pub hash_len: usize,
    pub buffers: usize,
    pub metadata: BTreeMap<String, Vec<u8>>,
    pub verbose: u32,
}

impl CompressSpec {
    pub fn json(&self) -> Value {
        json!({
            "chunker": self.cfg.json(), "compression": self.comp.json(), "hash_length": self.hash_len,
            "buffered_chunks": self.buffers, "verbose": self.verbose,
            "metadata": self.metadata.iter().map(|(k, v)| (k.clone(), json!(v.len()))).collect::<BTreeMap<_, _>>(),
        })
    }
}

pub fn gen_compress_spec(cli: bool, big: bool) -> CompressSpec {
    let cfg = gen::gen_config(cli, big);
    let comp = gen::gen_compression();
    let hash_len = gen::gen_hash_length();
    let buffers = gen::gen_buffers();
    let metadata = gen::gen_metadata();
    let verbose = simkit::with(|s| s.tape.weighted(&[6, 2, 1])) as u32;
    CompressSpec { cfg, comp, hash_len, buffers, metadata, verbose }
}

/// `bita compress` arguments. Metadata values that are not valid command-line strings go
/// through --metadata-file.
pub fn compress_args(spec: &CompressSpec, input: Option<&str>, output: &str, force: bool) -> Vec<String> {
    let mut a: Vec<String> = vec!["bita".into(), "compress".into()];
    for _ in 0..spec.verbose {
        a.push("-v".into());
    }
    if let Some(i) = input {
        a.push("-i".into());
        a.push(i.into());
    }
    a.extend(spec.cfg.cli_args());
    a.extend(spec.comp.cli_args());
    a.push("--hash-length".into());
    a.push(spec.hash_len.to_string());
    a.push("--buffered-chunks".into());
    a.push(spec.buffers.to_string());
    if force {
        a.push("--force-create".into());
    }
    for (i, (k, v)) in spec.metadata.iter().enumerate() {
        let as_str = std::str::from_utf8(v).ok().filter(|s| !s.contains('\0') && !s.starts_with('-') && !k.starts_with('-'));
        match as_str {
            Some(s) if i % 2 == 0 => {
                a.push("--metadata-value".into());
                a.push(k.clone());
                a.push(s.to_string());
            }
            _ => {
                let f = format!("meta{}.bin", i);
                put_file(&f, v);
                // (a value may come from something whose stat size says nothing: a device, a pipe)
                let dev = !v.is_empty() && simkit::chance(1, 8);
                sys::with(|s| s.path_mut(&f).fake_blockdev = dev);
                if dev {
                    simkit::count("probe:metadata-file-with-stat-size-0");
                }
                a.push("--metadata-file".into());
                a.push(k.clone());
                a.push(f);
            }
        }
    }
    a.push(output.into());
    a
}

/// keys the CLI can carry (clap rejects values starting with '-')
pub fn cli_safe_metadata(m: &BTreeMap<String, Vec<u8>>) -> BTreeMap<String, Vec<u8>> {
    m.iter().filter(|(k, _)| !k.starts_with('-') && !k.contains('\0')).map(|(k, v)| (k.clone(), v.clone())).collect()
}

pub struct LibCompress {
    pub outcome: Outcome,
    pub archive: Vec<u8>,
}

/// `bitar::api::compress::create_archive` with a simulated source and sink.
pub fn compress_lib(spec: &CompressSpec, source: Arc<Vec<u8>>, temp_override: Option<&str>) -> LibCompress {
    compress_lib_failing(spec, source, temp_override, None)
}

/// like `compress_lib`; the reader fails with EIO once `fail_at` bytes have been delivered
pub fn compress_lib_failing(spec: &CompressSpec, source: Arc<Vec<u8>>, temp_override: Option<&str>, fail_at: Option<usize>) -> LibCompress {
    compress_lib_failing_with(spec, source, temp_override, fail_at, std::io::ErrorKind::Other)
}

pub fn compress_lib_failing_with(spec: &CompressSpec, source: Arc<Vec<u8>>, temp_override: Option<&str>, fail_at: Option<usize>, kind: std::io::ErrorKind) -> LibCompress {
    use bitar::api::compress::{create_archive, CreateArchiveOptions};
    let options = CreateArchiveOptions {
        chunker_config: spec.cfg.to_config(),
        num_chunk_buffers: spec.buffers,
        chunk_hash_length: spec.hash_len,
        temporary_file_override: temp_override.map(|s| s.into()),
        compression: spec.comp.to_bitar(),
        metadata: spec.metadata.clone(),
    };
    let mut input = SimSource::drawn(source);
    input.fail_at = fail_at.map(|n| (n, kind));
    // one library compression in three writes to a (facade) tokio::fs::File, the writer most
    // callers pass. What counts is the file as another process finds it at the moment
    // create_archive returns: a write still on its way to the blocking pool is not in it
    if temp_override.is_none() && simkit::chance(1, 3) {
        return compress_lib_into_file(input, options);
    }
    let sink = SimSink::drawn();
    let sink2 = sink.clone();
    let r = run_async(async move {
        create_archive(input, sink2, &options).await.map(|_| ()).map_err(|e| {
            use std::error::Error;
            format!("{} <- {}", e, e.source().map(|s| s.to_string()).unwrap_or_default())
        })
    });
    LibCompress { outcome: outcome_of(r), archive: sink.bytes() }
}

/// `create_archive` into a (facade) tokio::fs::File at `lib.cba`; the archive is the file as it
/// is when create_archive returns
pub fn compress_lib_to_file(spec: &CompressSpec, source: Arc<Vec<u8>>) -> LibCompress {
    let options = bitar::api::compress::CreateArchiveOptions {
        chunker_config: spec.cfg.to_config(),
        num_chunk_buffers: spec.buffers,
        chunk_hash_length: spec.hash_len,
        temporary_file_override: None,
        compression: spec.comp.to_bitar(),
        metadata: spec.metadata.clone(),
    };
    compress_lib_into_file(SimSource::drawn(source), options)
}

fn compress_lib_into_file(input: SimSource, options: bitar::api::compress::CreateArchiveOptions) -> LibCompress {
    use bitar::api::compress::create_archive;
    {
        simkit::count("probe:lib-compress-into-tokio-file");
        quiet(|| {
            let _ = std::fs::remove_file("lib.cba");
        });
        let r = run_async(async move {
            let mut out = match tokio::fs::File::create("lib.cba").await {
                Ok(f) => f,
                Err(e) => return (Err(format!("create lib.cba: {}", e)), Vec::new()),
            };
            let res = create_archive(input, &mut out, &options).await.map(|_| ()).map_err(|e| {
                use std::error::Error;
                format!("{} <- {}", e, e.source().map(|s| s.to_string()).unwrap_or_default())
            });
            let seen = std::fs::read("lib.cba").unwrap_or_default();
            drop(out);
            (res, seen)
        });
        match r {
            Ok(End::Done((res, seen))) => LibCompress { outcome: outcome_of(Ok(End::Done(res))), archive: seen },
            Ok(End::StepBudget) => LibCompress { outcome: Outcome::StepBudget, archive: Vec::new() },
            Ok(End::Deadlock) => LibCompress { outcome: Outcome::Deadlock, archive: Vec::new() },
            Ok(End::Crashed) => LibCompress { outcome: Outcome::Crashed, archive: Vec::new() },
            Err(p) => LibCompress { outcome: Outcome::Panic(p), archive: Vec::new() },
        }
    }
}

#[derive(Clone, Debug, Default)]
pub struct CloneOpts {
    pub http: bool,
    pub seeds: Vec<String>,
    pub seed_stdin_at: Option<usize>,
    pub seed_output: bool,
    pub force_create: bool,
    pub verify_header: Option<String>,
    pub verify_output: bool,
    pub buffers: usize,
    pub verbose: u32,
    pub retries: u32,
    pub retry_delay: u64,
    pub timeout: Option<u64>,
    /// --http-header values ("Name: value")
    pub headers: Vec<String>,
}

pub fn clone_args(archive: &str, output: &str, o: &CloneOpts) -> Vec<String> {
    let mut a: Vec<String> = vec!["bita".into(), "clone".into()];
    for _ in 0..o.verbose {
        a.push("-v".into());
    }
    for (i, s) in o.seeds.iter().enumerate() {
        if o.seed_stdin_at == Some(i) {
            a.push("--seed".into());
            a.push("-".into());
        }
        a.push("--seed".into());
        a.push(s.clone());
    }
    if let Some(i) = o.seed_stdin_at {
        if i >= o.seeds.len() {
            a.push("--seed".into());
            a.push("-".into());
        }
    }
    if o.seed_output {
        a.push("--seed-output".into());
    }
    if o.force_create {
        a.push("--force-create".into());
    }
    if let Some(h) = &o.verify_header {
        a.push("--verify-header".into());
        a.push(h.clone());
    }
    if o.verify_output {
        a.push("--verify-output".into());
    }
    a.push("--buffered-chunks".into());
    a.push(o.buffers.max(1).to_string());
    if o.http {
        if o.retries > 0 {
            a.push("--http-retry-count".into());
            a.push(o.retries.to_string());
        }
        if o.retry_delay > 0 {
            a.push("--http-retry-delay".into());
            a.push(o.retry_delay.to_string());
        }
        if let Some(t) = o.timeout {
            a.push("--http-timeout".into());
            a.push(t.to_string());
        }
        for h in &o.headers {
            a.push("--http-header".into());
            a.push(h.clone());
        }
        a.push(URL.into());
    } else {
        a.push(archive.into());
    }
    a.push(output.into());
    a
}

/// Serve `content` at URL with drawn body fragmentation and delays.
pub fn serve(content: Arc<Vec<u8>>) -> SharedServer {
    let mut s = Server::new(content);
    s.frag = net::draw_body_frag();
    s.max_delay_ns = net::draw_delay();
    net::install(s)
}

/// Library-level clone (the flow of bitar/examples/local-cloner.rs) into `output`.
pub async fn lib_clone<R>(reader: R, output: SimFile, seeds: Vec<SimSource>, reorder_self: bool) -> Result<LibCloneStats, String>
where
    R: ArchiveReader,
    R::Error: std::fmt::Display,
{
    let mut archive = Archive::try_init(reader).await.map_err(|e| format!("try_init: {}", e_str(&e)))?;
    let mut stats = LibCloneStats { source_size: archive.total_source_size(), ..Default::default() };
    let mut out = CloneOutput::new(output.clone(), archive.build_source_index());
    if reorder_self {
        // index the output itself with the archive's chunker, then reorder in place
        let mut idx = ChunkIndex::new_empty(archive.chunk_hash_length());
        {
            let mut f = output.clone();
            use tokio::io::AsyncSeekExt;
            f.seek(std::io::SeekFrom::Start(0)).await.map_err(|e| format!("seek: {}", e))?;
            let mut chunker = archive.chunker_config().new_chunker(&mut f);
            while let Some(r) = chunker.next().await {
                let (offset, chunk) = r.map_err(|e| format!("scan output: {}", e))?;
                let v = chunk.verify();
                let (hash, chunk) = v.into_parts();
                idx.add_chunk(hash, chunk.len(), &[offset]);
            }
        }
        stats.reused_in_place = out.reorder_in_place(idx).await.map_err(|e| format!("reorder: {}", e))?;
    }
    for s in seeds {
        let mut chunker = archive.chunker_config().new_chunker(s);
        while let Some(r) = chunker.next().await {
            let (_, chunk) = r.map_err(|e| format!("seed: {}", e))?;
            let verified = chunk.verify();
            stats.from_seeds += out.feed(&verified).await.map_err(|e| format!("feed seed: {}", e))? as u64;
        }
    }
    let mut stream = archive.chunk_stream(out.chunks());
    while let Some(r) = stream.next().await {
        let compressed = r.map_err(|e| format!("read archive: {}", e))?;
        stats.fetched_chunks += 1;
        stats.fetched_bytes += compressed.len() as u64;
        let verified = compressed.decompress().map_err(|e| format!("decompress: {}", e))?.verify().map_err(|e| format!("verify: {}", e))?;
        out.feed(&verified).await.map_err(|e| format!("feed: {}", e))?;
    }
    stats.left = out.len();
    Ok(stats)
}

fn e_str<E: std::fmt::Display>(e: &bitar::ArchiveError<E>) -> String {
    match e {
        bitar::ArchiveError::InvalidArchive(b) => format!("invalid archive: {}", b),
        bitar::ArchiveError::ReaderError(r) => format!("reader error: {}", r),
    }
}

#[derive(Clone, Debug, Default)]
pub struct LibCloneStats {
    pub source_size: u64,
    pub reused_in_place: u64,
    pub from_seeds: u64,
    pub fetched_chunks: u64,
    pub fetched_bytes: u64,
    pub left: usize,
}

/// the livelock budget of a library-level clone grows with the bytes it is given to scan (see
/// cli::run_cli_os)
pub fn with_budget_for<R>(bytes: u64, f: impl FnOnce() -> R) -> R {
    let before = simkit::with(|s| {
        let b = s.step_budget;
        s.step_budget = b.saturating_add(bytes.saturating_mul(8));
        b
    });
    let r = f();
    simkit::with(|s| s.step_budget = before);
    r
}

pub fn run_lib_clone_local(archive: Vec<u8>, output: SimFile, seeds: Vec<SimSource>, reorder_self: bool) -> Result<End<Result<LibCloneStats, String>>, String> {
    let bytes = archive.len() as u64 * 2 + output.with(|g| g.data.len() as u64) + seeds.iter().map(|s| s.len() as u64).sum::<u64>();
    let reader = IoReader::new(SimFile::drawn(archive));
    with_budget_for(bytes, || run_async(lib_clone(reader, output, seeds, reorder_self)))
}

pub fn run_lib_clone_http(output: SimFile, seeds: Vec<SimSource>, reorder_self: bool, retries: u32, delay_s: u64) -> Result<End<Result<LibCloneStats, String>>, String> {
    let bytes = output.with(|g| g.data.len() as u64) + seeds.iter().map(|s| s.len() as u64).sum::<u64>();
    let reader = HttpReader::from_url(URL.parse().unwrap()).retries(retries).retry_delay(std::time::Duration::from_secs(delay_s));
    with_budget_for(bytes, || run_async(lib_clone(reader, output, seeds, reorder_self)))
}

pub fn lib_outcome(r: &Result<End<Result<LibCloneStats, String>>, String>) -> Outcome {
    match r {
        Ok(End::Done(Ok(_))) => Outcome::Success,
        Ok(End::Done(Err(e))) => Outcome::Error(e.clone()),
        Ok(End::StepBudget) => Outcome::StepBudget,
        Ok(End::Deadlock) => Outcome::Deadlock,
        Ok(End::Crashed) => Outcome::Crashed,
        Err(p) => Outcome::Panic(p.clone()),
    }
}

pub fn run(args: &[String]) -> CmdResult {
    run_cli(args)
}
