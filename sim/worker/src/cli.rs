//! Runs one bita command (or one library future) as a simulated process: the ten lines of
//! `src/main.rs` re-implemented on top of the simulator's `block_on`.

use std::future::Future;
use std::io::Write;
use std::panic::{catch_unwind, AssertUnwindSafe};

use simkit::exec::End;

use crate::harness::{take_log, take_panic};
use crate::sys;

#[derive(Clone, Debug, PartialEq, Eq)]
pub enum Outcome {
    /// exit status 0
    Success,
    /// the command returned Err: exit status 1
    Error(String),
    /// clap refused the arguments: exit status 2
    Usage(String),
    /// exit status 101; the string is file:line [message]
    Panic(String),
    StepBudget,
    Deadlock,
    /// simulated process death
    Crashed,
}

impl Outcome {
    pub fn is_success(&self) -> bool {
        matches!(self, Outcome::Success)
    }
    pub fn is_error_exit(&self) -> bool {
        matches!(self, Outcome::Error(_) | Outcome::Usage(_))
    }
    pub fn short(&self) -> String {
        match self {
            Outcome::Success => "Success".into(),
            Outcome::Error(e) => format!("Error({})", e.chars().take(160).collect::<String>()),
            Outcome::Usage(e) => format!("Usage({})", e),
            Outcome::Panic(p) => format!("Panic({})", p),
            Outcome::StepBudget => "StepBudget".into(),
            Outcome::Deadlock => "Deadlock".into(),
            Outcome::Crashed => "Crashed".into(),
        }
    }
    /// class fragment for violation identity: kind plus panic site without the message
    pub fn class(&self) -> String {
        match self {
            Outcome::Panic(p) => format!("Panic@{}", p.split(' ').next().unwrap_or("?")),
            Outcome::Error(_) => "Error".into(),
            Outcome::Usage(_) => "Usage".into(),
            o => o.short(),
        }
    }
}

pub struct CmdResult {
    pub outcome: Outcome,
    pub stdout: Vec<u8>,
    pub log: Vec<String>,
}

/// Drive a future under the simulator, catching panics.
pub fn run_async<T>(fut: impl Future<Output = T>) -> Result<End<T>, String> {
    let _ = take_panic();
    let r = catch_unwind(AssertUnwindSafe(|| simkit::exec::block_on(fut)));
    match r {
        Ok(end) => Ok(end),
        Err(_) => {
            simkit::exec::abort_cleanup();
            let p = take_panic().unwrap_or_else(|| "?".into());
            if simkit::with(|s| std::mem::replace(&mut s.budget_exceeded, false)) {
                return Ok(End::StepBudget);
            }
            Err(p)
        }
    }
}

pub fn outcome_of<E: std::fmt::Display>(r: Result<End<Result<(), E>>, String>) -> Outcome {
    match r {
        Ok(End::Done(Ok(()))) => Outcome::Success,
        Ok(End::Done(Err(e))) => Outcome::Error(format!("{:#}", e)),
        Ok(End::StepBudget) => Outcome::StepBudget,
        Ok(End::Deadlock) => Outcome::Deadlock,
        Ok(End::Crashed) => Outcome::Crashed,
        Err(p) => Outcome::Panic(p),
    }
}

/// `bita <args>` as a simulated process. `args[0]` is the program name.
pub fn run_cli(args: &[String]) -> CmdResult {
    let os: Vec<std::ffi::OsString> = args.iter().map(std::ffi::OsString::from).collect();
    run_cli_os(&os)
}

/// like `run_cli`, with arguments that need not be valid UTF-8 (file names are bytes)
pub fn run_cli_os(args: &[std::ffi::OsString]) -> CmdResult {
    simkit::with(|s| s.event_s("cli", &args.iter().map(|a| a.to_string_lossy().to_string()).collect::<Vec<_>>().join(" ")));
    let _ = take_log();
    let _ = take_panic();
    let parsed = catch_unwind(AssertUnwindSafe(|| bita::cli::parse_opts(args.iter().cloned())));
    let (cmd, log_opts) = match parsed {
        Err(_) => {
            return CmdResult { outcome: Outcome::Panic(take_panic().unwrap_or_else(|| "?".into())), stdout: Vec::new(), log: take_log() }
        }
        Ok(Err(e)) => return CmdResult { outcome: Outcome::Usage(format!("{:?}", e.kind())), stdout: Vec::new(), log: take_log() },
        Ok(Ok(v)) => v,
    };
    log::set_max_level(log_opts.filter);
    // main() sets up its logger here. The harness's logger is already installed, so fern's
    // apply() fails at its last step -- after the sinks have been built, which is the part that
    // can touch the file system (C16)
    let _ = catch_unwind(AssertUnwindSafe(|| bita::init_log(log_opts)));
    let r = run_async(async move {
        use bita::cli::CommandOpts;
        match cmd {
            CommandOpts::Compress(opts) => bita::compress_cmd::compress_cmd(opts).await,
            CommandOpts::Clone(opts) => bita::clone_cmd::clone_cmd(opts).await,
            CommandOpts::Info(opts) => bita::info_cmd::info_cmd(opts).await,
            CommandOpts::Diff(opts) => bita::diff_cmd::diff_cmd(opts).await,
        }
    });
    let _ = std::io::stdout().flush();
    let stdout = sys::with(|s| std::mem::take(&mut s.stdout));
    let outcome = outcome_of(r);
    simkit::with(|s| s.event_s("cli-outcome", &outcome.class()));
    CmdResult { outcome, stdout, log: take_log() }
}

pub fn args(list: &[&str]) -> Vec<String> {
    list.iter().map(|s| s.to_string()).collect()
}
