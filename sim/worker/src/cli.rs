//! Runs one bita command (or one library future) as a simulated process: the ten lines of
//! `src/main.rs` re-implemented on top of the simulator's `block_on`.

use std::future::Future;
use std::io::Write;
use std::panic::{catch_unwind, AssertUnwindSafe};

use simkit::exec::End;

use crate::harness::{take_log, take_panic};
use crate::sys;

#[derive(Clone, Debug, PartialEq, Eq)]
pub enum Outcome {
    /// exit status 0
    Success,
    /// the command returned Err: exit status 1
    Error(String),
    /// clap refused the arguments: exit status 2
    Usage(String),
    /// exit status 101; the string is file:line [message]
    Panic(String),
    StepBudget,
    Deadlock,
    /// simulated process death
    Crashed,
}

impl Outcome {
    pub fn is_success(&self) -> bool {
        matches!(self, Outcome::Success)
    }
    pub fn is_error_exit(&self) -> bool {
        matches!(self, Outcome::Error(_) | Outcome::Usage(_))
    }
    pub fn short(&self) -> String {
        match self {
            Outcome::Success => "Success".into(),
            Outcome::Error(e) => format!("Error({})", e.chars().take(160).collect::<String>()),
            Outcome::Usage(e) => format!("Usage({})", e),
            Outcome::Panic(p) => format!("Panic({})", p),
            Outcome::StepBudget => "StepBudget".into(),
            Outcome::Deadlock => "Deadlock".into(),
            Outcome::Crashed => "Crashed".into(),
        }
    }
    /// class fragment for violation identity: kind plus panic site without the message
    pub fn class(&self) -> String {
        match self {
            Outcome::Panic(p) => format!("Panic@{}", p.split(' ').next().unwrap_or("?")),
            Outcome::Error(_) => "Error".into(),
            Outcome::Usage(_) => "Usage".into(),
            o => o.short(),
        }
    }
}

pub struct CmdResult {
    pub outcome: Outcome,
    pub stdout: Vec<u8>,
    pub log: Vec<String>,
    /// a panic happened inside the command although its outcome is not `Panic`: in a blocking
    /// task, where tokio turns it into a JoinError (site and message of the first one)
    pub inner_panic: Option<String>,
}

/// Drive a future under the simulator, catching panics.
pub fn run_async<T>(fut: impl Future<Output = T>) -> Result<End<T>, String> {
    let _ = take_panic();
    let r = catch_unwind(AssertUnwindSafe(|| simkit::exec::block_on(fut)));
    match r {
        Ok(end) => Ok(end),
        Err(_) => {
            simkit::exec::abort_cleanup();
            let p = take_panic().unwrap_or_else(|| "?".into());
            if simkit::with(|s| std::mem::replace(&mut s.budget_exceeded, false)) {
                return Ok(End::StepBudget);
            }
            Err(p)
        }
    }
}

pub fn outcome_of<E: std::fmt::Display>(r: Result<End<Result<(), E>>, String>) -> Outcome {
    match r {
        Ok(End::Done(Ok(()))) => Outcome::Success,
        Ok(End::Done(Err(e))) => Outcome::Error(format!("{:#}", e)),
        Ok(End::StepBudget) => Outcome::StepBudget,
        Ok(End::Deadlock) => Outcome::Deadlock,
        Ok(End::Crashed) => Outcome::Crashed,
        Err(p) => Outcome::Panic(p),
    }
}

/// BITASIM_DISPATCH=1: never host main(), always dispatch the parsed command (the behaviour
/// before main() joined the perimeter; kept for comparing the two)
fn dispatch_only() -> bool {
    static V: std::sync::OnceLock<bool> = std::sync::OnceLock::new();
    *V.get_or_init(|| std::env::var_os("BITASIM_DISPATCH").is_some())
}

/// Runs the repository's own `main()` (as `bita::run_sim_main`) as the simulated process and
/// maps the way it ends to an outcome: the exit status it returns or exits with, a panic, or
/// the simulator ending the process (budget, deadlock, crash).
fn run_hosted_main(args: &[std::ffi::OsString]) -> Outcome {
    let _ = take_panic();
    bita::set_sim_args(args.to_vec());
    sys::with(|s| s.stderr.clear());
    sys::IN_SIM_MAIN.with(|c| c.set(true));
    let r = catch_unwind(AssertUnwindSafe(bita::run_sim_main));
    sys::IN_SIM_MAIN.with(|c| c.set(false));
    let said = || {
        let e = sys::with(|s| String::from_utf8_lossy(&s.stderr).to_string());
        // "Error: <message>\n\nCaused by:\n    <cause>" as one line
        let e = e.trim().strip_prefix("Error: ").unwrap_or(e.trim()).to_string();
        e.split('\n').map(|l| l.trim()).filter(|l| !l.is_empty() && *l != "Caused by:").collect::<Vec<_>>().join(": ")
    };
    match r {
        Ok(code) => {
            if code == std::process::ExitCode::SUCCESS {
                Outcome::Success
            } else {
                Outcome::Error(said())
            }
        }
        Err(payload) => {
            if let Some(end) = payload.downcast_ref::<tokio::runtime::SimEnd>() {
                return match end.0 {
                    "StepBudget" => Outcome::StepBudget,
                    "Deadlock" => Outcome::Deadlock,
                    _ => Outcome::Crashed,
                };
            }
            simkit::exec::abort_cleanup();
            let exited = payload.downcast_ref::<bita::SimExit>().map(|x| x.0).or_else(|| payload.downcast_ref::<sys::SimExit>().map(|x| x.0));
            if let Some(code) = exited {
                simkit::count("main-called-exit");
                return if code == 0 { Outcome::Success } else { Outcome::Error(format!("exit status {}: {}", code, said())) };
            }
            let p = take_panic().unwrap_or_else(|| "?".into());
            if simkit::with(|s| std::mem::replace(&mut s.budget_exceeded, false)) {
                return Outcome::StepBudget;
            }
            Outcome::Panic(p)
        }
    }
}

/// `bita <args>` as a simulated process. `args[0]` is the program name.
pub fn run_cli(args: &[String]) -> CmdResult {
    let os: Vec<std::ffi::OsString> = args.iter().map(std::ffi::OsString::from).collect();
    run_cli_os(&os)
}

/// like `run_cli`, with arguments that need not be valid UTF-8 (file names are bytes)
pub fn run_cli_os(args: &[std::ffi::OsString]) -> CmdResult {
    simkit::with(|s| s.event_s("cli", &args.iter().map(|a| a.to_string_lossy().to_string()).collect::<Vec<_>>().join(" ")));
    let _ = take_log();
    let _ = take_panic();
    let parsed = catch_unwind(AssertUnwindSafe(|| bita::cli::parse_opts(args.iter().cloned())));
    let (cmd, log_opts) = match parsed {
        Err(_) => {
            return CmdResult { outcome: Outcome::Panic(take_panic().unwrap_or_else(|| "?".into())), stdout: Vec::new(), log: take_log(), inner_panic: None }
        }
        Ok(Err(e)) => return CmdResult { outcome: Outcome::Usage(format!("{:?}", e.kind())), stdout: Vec::new(), log: take_log(), inner_panic: None },
        Ok(Ok(v)) => v,
    };
    log::set_max_level(log_opts.filter);
    // The livelock budget grows with the work a command can legitimately have: it handles at
    // most a few chunks per byte of the files it can see (a sparse output scanned with BuzHash
    // and no minimum chunk size is one chunk per zero byte: C05 at VERIF_SEED=11 ran a re-run of
    // a 3.9 MB update out of 2 M polls that way), and a few polls per chunk.
    let budget_before = simkit::with(|s| s.step_budget);
    let visible: u64 = crate::scen::quiet(|| {
        fn walk(d: &std::path::Path, depth: u32) -> u64 {
            let mut n = 0;
            if let Ok(rd) = std::fs::read_dir(d) {
                for e in rd.flatten() {
                    if let Ok(m) = e.path().symlink_metadata() {
                        if m.is_file() {
                            n += m.len();
                        } else if m.is_dir() && depth < 3 {
                            n += walk(&e.path(), depth + 1);
                        }
                    }
                }
            }
            n
        }
        walk(std::path::Path::new("."), 0)
    }) + simkit::with(|s| s.stdin.as_ref().map(|i| i.data.len() as u64).unwrap_or(0));
    simkit::with(|s| s.step_budget = budget_before.saturating_add(visible.saturating_mul(8)));
    let outcome = if bita::SIM_MAIN && !dispatch_only() {
        // main() of the repository under test runs as it stands (tools/gen_shadow.py: arguments
        // from the harness, the logger's "already installed" discarded, tokio's Runtime the
        // simulator's executor, exit(3) an unwinding): its exit status is the outcome
        drop((cmd, log_opts));
        simkit::count("main-hosted");
        run_hosted_main(args)
    } else {
        if !bita::SIM_MAIN {
            simkit::count("main-not-hosted:unrecognised-shape");
        }
        // main() sets up its logger here. The harness's logger is already installed, so fern's
        // apply() fails at its last step -- after the sinks have been built, which is the part
        // that can touch the file system (C16)
        let _ = catch_unwind(AssertUnwindSafe(|| bita::init_log(log_opts)));
        let r = run_async(async move {
            use bita::cli::CommandOpts;
            match cmd {
                CommandOpts::Compress(opts) => bita::compress_cmd::compress_cmd(opts).await,
                CommandOpts::Clone(opts) => bita::clone_cmd::clone_cmd(opts).await,
                CommandOpts::Info(opts) => bita::info_cmd::info_cmd(opts).await,
                CommandOpts::Diff(opts) => bita::diff_cmd::diff_cmd(opts).await,
            }
        });
        outcome_of(r)
    };
    let _ = std::io::stdout().flush();
    let stdout = sys::with(|s| std::mem::take(&mut s.stdout));
    simkit::with(|s| s.event_s("cli-outcome", &outcome.class()));
    simkit::with(|s| s.step_budget = budget_before);
    let inner_panic = if matches!(outcome, Outcome::Panic(_)) { None } else { take_panic() };
    CmdResult { outcome, stdout, log: take_log(), inner_panic }
}

/// Two `bita` commands as two simulated processes that run at the same time (one executor, the
/// second starts after `delay` scheduling steps). For commands that do not read stdin.
pub fn run_cli_pair(a: &[String], b: &[String], delay: u32) -> Option<(Outcome, Outcome)> {
    simkit::with(|s| s.event_s("cli-pair", &format!("{} || {} (+{})", a.join(" "), b.join(" "), delay)));
    let _ = take_log();
    let _ = take_panic();
    let pa = bita::cli::parse_opts(a.iter().map(std::ffi::OsString::from)).ok()?;
    let pb = bita::cli::parse_opts(b.iter().map(std::ffi::OsString::from)).ok()?;
    log::set_max_level(pa.1.filter);
    async fn dispatch(cmd: bita::cli::CommandOpts) -> anyhow::Result<()> {
        use bita::cli::CommandOpts;
        match cmd {
            CommandOpts::Compress(opts) => bita::compress_cmd::compress_cmd(opts).await,
            CommandOpts::Clone(opts) => bita::clone_cmd::clone_cmd(opts).await,
            CommandOpts::Info(opts) => bita::info_cmd::info_cmd(opts).await,
            CommandOpts::Diff(opts) => bita::diff_cmd::diff_cmd(opts).await,
        }
    }
    let (ca, cb) = (pa.0, pb.0);
    let r = run_async(async move {
        let fa = dispatch(ca);
        let fb = async move {
            for _ in 0..delay {
                tokio::task::yield_now().await;
            }
            dispatch(cb).await
        };
        futures_util::future::join(fa, fb).await
    });
    let _ = std::io::stdout().flush();
    let _ = sys::with(|s| std::mem::take(&mut s.stdout));
    let _ = take_log();
    let both = match r {
        Ok(End::Done((ra, rb))) => {
            let o = |r: anyhow::Result<()>| match r {
                Ok(()) => Outcome::Success,
                Err(e) => Outcome::Error(format!("{:#}", e)),
            };
            (o(ra), o(rb))
        }
        Ok(End::StepBudget) => (Outcome::StepBudget, Outcome::StepBudget),
        Ok(End::Deadlock) => (Outcome::Deadlock, Outcome::Deadlock),
        Ok(End::Crashed) => (Outcome::Crashed, Outcome::Crashed),
        Err(p) => (Outcome::Panic(p.clone()), Outcome::Panic(p)),
    };
    simkit::with(|s| s.event_s("cli-pair-outcome", &format!("{} / {}", both.0.class(), both.1.class())));
    Some(both)
}

pub fn args(list: &[&str]) -> Vec<String> {
    list.iter().map(|s| s.to_string()).collect()
}
