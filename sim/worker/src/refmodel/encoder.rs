//! An independent writer of conforming bita archives: everything the documented format
//! leaves open is a drawn choice (magic, slack before the chunk data, storage order, gaps,
//! raw vs compressed per chunk, unknown protobuf fields, packed or unpacked repeated fields,
//! hash length, recorded level). Compression is done with the brotli / zstd / lzma crates
//! directly.

use std::collections::{BTreeMap, HashMap};
use std::io::Write;

use serde_json::{json, Value};

use super::chunker::ref_chunks;
use super::format::{build_header, encode_dict, EncodeStyle, RefDesc, RefDict, RefParams, LEGACY_MAGIC, MAGIC};
use crate::gen::{self, Algo, Cfg, Comp};

pub fn trusted_compress(comp: Comp, data: &[u8]) -> Vec<u8> {
    match comp {
        Comp::None => data.to_vec(),
        Comp::Brotli(q) => {
            let mut out = Vec::new();
            {
                let mut w = brotli::CompressorWriter::new(&mut out, 4096, q, 22);
                w.write_all(data).unwrap();
            }
            out
        }
        Comp::Zstd(l) => zstd::stream::encode_all(data, l as i32).unwrap(),
        Comp::Lzma(l) => lzma::compress(data, l).unwrap(),
    }
}

pub struct Encoded {
    pub archive: Vec<u8>,
    pub dict: RefDict,
    pub header_len: usize,
    pub chunk_data_offset: u64,
    pub desc: Value,
}

pub fn params_of(cfg: &Cfg, hash_len: usize) -> RefParams {
    match cfg.algo {
        Algo::Fixed => RefParams { filter_bits: 0, min: 0, max: cfg.max as u32, window: 0, hash_length: hash_len as u32, algorithm: 2 },
        Algo::RollSum => RefParams { filter_bits: cfg.bits, min: cfg.min as u32, max: cfg.max as u32, window: cfg.window as u32, hash_length: hash_len as u32, algorithm: 1 },
        Algo::BuzHash => RefParams { filter_bits: cfg.bits, min: cfg.min as u32, max: cfg.max as u32, window: cfg.window as u32, hash_length: hash_len as u32, algorithm: 0 },
    }
}

pub fn comp_pair(comp: Comp) -> (u32, u32) {
    match comp {
        Comp::None => (0, 0),
        Comp::Lzma(l) => (1, l),
        Comp::Zstd(l) => (2, l),
        Comp::Brotli(l) => (3, l),
    }
}

/// Encode `source` as a conforming archive with drawn layout choices.
pub fn encode(source: &[u8], cfg: &Cfg, comp: Comp, hash_len: usize, metadata: &BTreeMap<String, Vec<u8>>) -> Encoded {
    encode_with(source, cfg, comp, hash_len, metadata, false)
}

/// `permute_descriptors`: list the descriptors in a drawn order instead of the order of first
/// occurrence (the .proto's comment documents the latter; readers do not depend on it)
pub fn encode_with(source: &[u8], cfg: &Cfg, comp: Comp, hash_len: usize, metadata: &BTreeMap<String, Vec<u8>>, permute_descriptors: bool) -> Encoded {
    // chunk list: the declared chunker's, or (the format does not care) arbitrary cuts
    let arbitrary = gen::chance(1, 8);
    let chunks: Vec<(usize, usize)> = if arbitrary {
        let mut v = Vec::new();
        let mut o = 0;
        while o < source.len() {
            let l = (1 + gen::draw(cfg.expected_avg().max(1).min(1 << 16) as u32 * 2) as usize).min(source.len() - o);
            v.push((o, l));
            o += l;
        }
        v
    } else {
        ref_chunks(cfg, source)
    };
    let mut uniq: Vec<(usize, usize)> = Vec::new();
    let mut order: Vec<u32> = Vec::new();
    let mut seen: HashMap<Vec<u8>, u32> = HashMap::new();
    let mut hashes: Vec<Vec<u8>> = Vec::new();
    for &(o, l) in &chunks {
        let h = gen::blake2b512(&source[o..o + l]);
        // dedup on the truncated hash: two descriptors must not share a stored checksum
        let key = h[..hash_len].to_vec();
        let idx = *seen.entry(key).or_insert_with(|| {
            uniq.push((o, l));
            hashes.push(h.clone());
            (uniq.len() - 1) as u32
        });
        // a truncated-hash twin with different content cannot be represented: fall back to
        // treating it as the same chunk only if the bytes agree, else give it its own entry
        let (uo, ul) = uniq[idx as usize];
        if source[uo..uo + ul] != source[o..o + l] {
            uniq.push((o, l));
            hashes.push(h.clone());
            order.push((uniq.len() - 1) as u32);
        } else {
            order.push(idx);
        }
    }
    let n = uniq.len();
    if permute_descriptors && n >= 2 {
        let mut perm: Vec<usize> = (0..n).collect();
        let mut rng = simkit::prng::Rng::new(gen::t(|t| t.seed64()));
        for i in (1..n).rev() {
            let j = rng.below(i as u64 + 1) as usize;
            perm.swap(i, j);
        }
        // new position i holds old descriptor perm[i]
        let mut inv = vec![0u32; n];
        for (i, &o) in perm.iter().enumerate() {
            inv[o] = i as u32;
        }
        uniq = perm.iter().map(|&o| uniq[o]).collect();
        hashes = perm.iter().map(|&o| hashes[o].clone()).collect();
        for r in order.iter_mut() {
            *r = inv[*r as usize];
        }
    }
    // stored payloads
    let raw_bias = gen::draw(3);
    let mut payloads: Vec<Vec<u8>> = Vec::with_capacity(n);
    let mut n_raw = 0;
    for &(o, l) in &uniq {
        let plain = &source[o..o + l];
        let want_raw = comp == Comp::None || match raw_bias {
            0 => false,
            1 => gen::chance(1, 2),
            _ => gen::chance(1, 8),
        };
        let p = if want_raw {
            plain.to_vec()
        } else {
            let c = trusted_compress(comp, plain);
            if c.len() == plain.len() {
                plain.to_vec()
            } else {
                c
            }
        };
        if p.len() == l {
            n_raw += 1;
        }
        payloads.push(p);
    }
    // storage order and gaps
    let storage_kind = gen::t(|t| t.weighted(&[3, 2, 3]));
    let mut storage: Vec<usize> = (0..n).collect();
    match storage_kind {
        0 => {}
        1 => storage.reverse(),
        _ => {
            let mut rng = simkit::prng::Rng::new(gen::t(|t| t.seed64()));
            for i in (1..n).rev() {
                let j = rng.below(i as u64 + 1) as usize;
                storage.swap(i, j);
            }
        }
    }
    let gap_kind = gen::t(|t| t.weighted(&[3, 2, 2]));
    let slack = match gen::t(|t| t.weighted(&[2, 2, 1])) {
        0 => 0usize,
        1 => 1 + gen::draw(64) as usize,
        _ => 1 + gen::draw(5000) as usize,
    };
    let mut rel_off = vec![0u64; n];
    let mut data = Vec::new();
    let mut filler = simkit::prng::Rng::new(0x5eed ^ n as u64);
    for &i in &storage {
        let gap = match gap_kind {
            0 => 0,
            1 => {
                if gen::chance(1, 3) {
                    1 + gen::draw(32) as usize
                } else {
                    0
                }
            }
            _ => 1 + gen::draw(16) as usize,
        };
        let mut pad = vec![0u8; gap];
        filler.fill(&mut pad);
        data.extend_from_slice(&pad);
        rel_off[i] = data.len() as u64;
        data.extend_from_slice(&payloads[i]);
    }
    if gen::chance(1, 4) {
        // trailing bytes after the last chunk are nobody's business
        data.extend_from_slice(b"trailing");
    }
    let descriptors: Vec<RefDesc> = (0..n)
        .map(|i| RefDesc { checksum: hashes[i][..hash_len].to_vec(), archive_size: payloads[i].len() as u32, archive_offset: rel_off[i], source_size: uniq[i].1 as u32 })
        .collect();
    let version = gen::t(|t| t.pick(&["0.13.0", "", "9.9.9-other-tool", "0.1.1"]).to_string());
    let dict = RefDict {
        application_version: version,
        source_checksum: gen::blake2b512(source),
        source_total_size: source.len() as u64,
        params: Some(params_of(cfg, hash_len)),
        // the recorded level is informational: no decompressor reads it, the schema gives it no
        // range. Other tools may record 0 (proto3 default), or their own scale
        compression: Some(match comp_pair(comp) {
            (0, l) => (0, l),
            (a, l) => (a, if gen::chance(1, 6) { *gen::t(|t| t.pick(&[0u32, 0, 12, 23, 100, 4_000_000_000])) } else { l }),
        }),
        rebuild_order: order,
        descriptors,
        metadata: metadata.clone(),
        unknown_fields: 0,
    };
    let style = EncodeStyle { unknown_fields: gen::chance(1, 3), unpacked_rebuild: gen::chance(1, 4), explicit_defaults: gen::chance(1, 4), split_packed: gen::chance(1, 4) };
    let dict_bytes = encode_dict(&dict, &style);
    let legacy = gen::chance(1, 4);
    let header_len = 14 + dict_bytes.len() + 72;
    let cdo = (header_len + slack) as u64;
    let mut archive = build_header(if legacy { LEGACY_MAGIC } else { MAGIC }, &dict_bytes, Some(cdo));
    let mut pad = vec![0u8; slack];
    filler.fill(&mut pad);
    archive.extend_from_slice(&pad);
    archive.extend_from_slice(&data);
    let desc = json!({
        "encoder": "RefFormat", "legacy_magic": legacy, "slack": slack, "storage": (["ascending", "descending", "permuted"][storage_kind]), "gaps": (["none", "some", "all"][gap_kind]),
        "descriptors_permuted": permute_descriptors, "chunks": chunks.len(), "unique": n, "raw_chunks": n_raw, "arbitrary_cuts": arbitrary, "style": format!("{:?}", style),
        "chunker": cfg.json(), "compression": comp.json(), "hash_length": hash_len, "source_len": source.len(),
    });
    Encoded { archive, dict, header_len, chunk_data_offset: cdo, desc }
}
