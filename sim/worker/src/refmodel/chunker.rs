//! RefChunker: where chunk boundaries must fall, stated non-incrementally.
//!
//! For every candidate end position of the current chunk the hash of the trailing window is
//! computed from its closed form (never by rolling), and the chunk is cut at the first
//! position >= max(min, 1) whose hash has all filter bits set, else at max. Conventions of
//! the stream start (pinned by the golden tests): RollSum's window initially holds zero
//! bytes; BuzHash consumes its first `window` bytes before the first test, so the first
//! tested length of the first chunk is window + 1.

use super::buztable::{SEED, TABLE};
use crate::gen::{Algo, Cfg};

/// RollSum of the w bytes ending at absolute position q (bytes before the stream count as 0):
/// s1 = 31w + sum x, s2 = 31w(w-1) + sum (age) x with age 1 for the newest and w for the oldest.
pub fn rollsum_at(data: &[u8], q: usize, w: usize) -> u32 {
    let w32 = w as u32;
    let mut s1: u32 = w32.wrapping_mul(31);
    let mut s2: u32 = w32.wrapping_mul(w32.wrapping_sub(1)).wrapping_mul(31);
    let start = q.saturating_sub(w);
    for j in start..q {
        let x = data[j] as u32;
        let age = (q - j) as u32;
        s1 = s1.wrapping_add(x);
        s2 = s2.wrapping_add(age.wrapping_mul(x));
    }
    (s1 << 16) | (s2 & 0xffff)
}

/// BuzHash of the w bytes ending at q (q >= w): xor of rotl(T[x] ^ seed, distance from the end).
pub fn buzhash_at(data: &[u8], q: usize, w: usize) -> u32 {
    let mut h = 0u32;
    for j in (q - w)..q {
        let v = TABLE[data[j] as usize] ^ SEED;
        h ^= v.rotate_left(((q - 1 - j) % 32) as u32);
    }
    h
}

/// O(n) evaluation of the same closed forms through prefix sums (RollSum) / prefix xors
/// (BuzHash); `hash(q)` is the hash of the window ending at q.
pub struct WindowHashes<'a> {
    data: &'a [u8],
    w: usize,
    algo: Algo,
    p1: Vec<u32>,
    p2: Vec<u32>,
    g: Vec<u32>,
    direct: bool,
}

impl<'a> WindowHashes<'a> {
    pub fn new(data: &'a [u8], w: usize, algo: Algo) -> Self {
        let n = data.len();
        let direct = (n as u64) * (w as u64) <= 2_000_000;
        let (mut p1, mut p2, mut g) = (Vec::new(), Vec::new(), Vec::new());
        if !direct {
            match algo {
                Algo::RollSum => {
                    p1 = vec![0u32; n + 1];
                    p2 = vec![0u32; n + 1];
                    for j in 0..n {
                        let x = data[j] as u32;
                        p1[j + 1] = p1[j].wrapping_add(x);
                        p2[j + 1] = p2[j].wrapping_add((j as u32).wrapping_mul(x));
                    }
                }
                Algo::BuzHash => {
                    // G(q) = xor_{j<q} rotl(T[x_j], q-1-j);  H(q) = G(q) ^ rotl(G(q-w), w)
                    g = vec![0u32; n + 1];
                    for j in 0..n {
                        g[j + 1] = g[j].rotate_left(1) ^ (TABLE[data[j] as usize] ^ SEED);
                    }
                }
                Algo::Fixed => {}
            }
        }
        WindowHashes { data, w, algo, p1, p2, g, direct }
    }
    pub fn hash(&self, q: usize) -> u32 {
        let w = self.w;
        match self.algo {
            Algo::RollSum => {
                if self.direct {
                    return rollsum_at(self.data, q, w);
                }
                let start = q.saturating_sub(w);
                let sum = self.p1[q].wrapping_sub(self.p1[start]);
                let wsum = self.p2[q].wrapping_sub(self.p2[start]);
                let w32 = w as u32;
                let s1 = w32.wrapping_mul(31).wrapping_add(sum);
                // sum (q - j) x_j = q * sum - sum j x_j
                let s2 = w32
                    .wrapping_mul(w32.wrapping_sub(1))
                    .wrapping_mul(31)
                    .wrapping_add((q as u32).wrapping_mul(sum).wrapping_sub(wsum));
                (s1 << 16) | (s2 & 0xffff)
            }
            Algo::BuzHash => {
                if self.direct {
                    return buzhash_at(self.data, q, w);
                }
                self.g[q] ^ self.g[q - w].rotate_left((w % 32) as u32)
            }
            Algo::Fixed => 0,
        }
    }
}

pub fn mask(bits: u32) -> u32 {
    if bits == 0 {
        0
    } else if bits >= 32 {
        !0
    } else {
        !0u32 >> (32 - bits)
    }
}

/// The chunk list (offset, length) the configuration defines for `data`.
pub fn ref_chunks(cfg: &Cfg, data: &[u8]) -> Vec<(usize, usize)> {
    let n = data.len();
    let mut out = Vec::new();
    if cfg.algo == Algo::Fixed {
        let mut o = 0;
        while o < n {
            let l = cfg.max.min(n - o);
            out.push((o, l));
            o += l;
        }
        return out;
    }
    let w = cfg.window;
    let m = mask(cfg.bits);
    let hashes = WindowHashes::new(data, w, cfg.algo);
    let mut start = 0usize;
    while start < n {
        // first candidate length
        let mut first = cfg.min.max(1);
        if cfg.algo == Algo::BuzHash && start == 0 {
            first = first.max(w + 1);
        }
        let mut cut = None;
        let mut p = first;
        while p <= cfg.max && start + p <= n {
            let h = hashes.hash(start + p);
            if h | m == h {
                cut = Some(p);
                break;
            }
            p += 1;
        }
        let len = match cut {
            Some(p) => p,
            None => {
                if start + cfg.max <= n && cfg.max >= 1 && (cfg.algo != Algo::BuzHash || start > 0 || cfg.max >= w) {
                    // no hash boundary up to max: cut at max
                    cfg.max
                } else {
                    n - start
                }
            }
        };
        let len = len.min(n - start);
        out.push((start, len));
        start += len;
    }
    out
}
