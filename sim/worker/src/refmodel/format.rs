//! RefFormat: an encoder and a decoder for the bita archive format written from the table in
//! `bitar/src/header.rs` and from `bitar/proto/chunk_dictionary.proto`, with a hand-written
//! protobuf wire codec. Independent of bitar and of prost. Trusted base: blake2,
//! brotli-decompressor / brotli, zstd, lzma called directly.
//!
//! | off | size | what                                         |
//! |   0 |    6 | magic "BITA1\0" (legacy: "\0BITA1")          |
//! |   6 |    8 | dictionary size, u64 LE                      |
//! |  14 |    n | protobuf ChunkDictionary                     |
//! | 14+n|    8 | chunk data offset (absolute), u64 LE         |
//! | 22+n|   64 | Blake2b-512 of bytes 0 .. 22+n               |

use std::collections::BTreeMap;

use crate::gen::blake2b512;

pub const MAGIC: &[u8; 6] = b"BITA1\0";
pub const LEGACY_MAGIC: &[u8; 6] = b"\0BITA1";

// ---------------------------------------------------------------- protobuf wire codec

pub fn put_varint(out: &mut Vec<u8>, mut v: u64) {
    loop {
        let b = (v & 0x7f) as u8;
        v >>= 7;
        if v == 0 {
            out.push(b);
            break;
        }
        out.push(b | 0x80);
    }
}

pub fn put_tag(out: &mut Vec<u8>, field: u32, wire: u8) {
    put_varint(out, ((field as u64) << 3) | wire as u64);
}

pub fn put_len_field(out: &mut Vec<u8>, field: u32, data: &[u8]) {
    put_tag(out, field, 2);
    put_varint(out, data.len() as u64);
    out.extend_from_slice(data);
}

pub fn put_varint_field(out: &mut Vec<u8>, field: u32, v: u64) {
    put_tag(out, field, 0);
    put_varint(out, v);
}

#[derive(Clone, Debug, PartialEq)]
pub enum WireVal {
    Varint(u64),
    Fixed64(u64),
    Len(Vec<u8>),
    Fixed32(u32),
}

fn get_varint(b: &[u8], i: &mut usize) -> Result<u64, String> {
    let mut v = 0u64;
    let mut shift = 0;
    loop {
        if *i >= b.len() {
            return Err("truncated varint".into());
        }
        let c = b[*i];
        *i += 1;
        if shift >= 64 {
            return Err("varint too long".into());
        }
        v |= ((c & 0x7f) as u64) << shift;
        if c & 0x80 == 0 {
            return Ok(v);
        }
        shift += 7;
    }
}

pub fn parse_fields(b: &[u8]) -> Result<Vec<(u32, WireVal)>, String> {
    let mut i = 0;
    let mut out = Vec::new();
    while i < b.len() {
        let tag = get_varint(b, &mut i)?;
        let field = (tag >> 3) as u32;
        if field == 0 {
            return Err("field number 0".into());
        }
        let v = match tag & 7 {
            0 => WireVal::Varint(get_varint(b, &mut i)?),
            1 => {
                if i + 8 > b.len() {
                    return Err("truncated fixed64".into());
                }
                let v = u64::from_le_bytes(b[i..i + 8].try_into().unwrap());
                i += 8;
                WireVal::Fixed64(v)
            }
            2 => {
                let l = get_varint(b, &mut i)? as usize;
                if l > b.len() - i {
                    return Err("truncated length-delimited field".into());
                }
                let v = b[i..i + l].to_vec();
                i += l;
                WireVal::Len(v)
            }
            5 => {
                if i + 4 > b.len() {
                    return Err("truncated fixed32".into());
                }
                let v = u32::from_le_bytes(b[i..i + 4].try_into().unwrap());
                i += 4;
                WireVal::Fixed32(v)
            }
            w => return Err(format!("unsupported wire type {}", w)),
        };
        out.push((field, v));
    }
    Ok(out)
}

// ---------------------------------------------------------------- dictionary model

#[derive(Clone, Debug, Default, PartialEq)]
pub struct RefDesc {
    pub checksum: Vec<u8>,
    pub archive_size: u32,
    /// relative to the chunk data offset
    pub archive_offset: u64,
    pub source_size: u32,
}

#[derive(Clone, Debug, Default, PartialEq)]
pub struct RefParams {
    pub filter_bits: u32,
    pub min: u32,
    pub max: u32,
    pub window: u32,
    pub hash_length: u32,
    /// 0 BUZHASH, 1 ROLLSUM, 2 FIXED_SIZE
    pub algorithm: u32,
}

#[derive(Clone, Debug, Default, PartialEq)]
pub struct RefDict {
    pub application_version: String,
    pub source_checksum: Vec<u8>,
    pub source_total_size: u64,
    pub params: Option<RefParams>,
    /// (type: 0 NONE 1 LZMA 2 ZSTD 3 BROTLI, level)
    pub compression: Option<(u32, u32)>,
    pub rebuild_order: Vec<u32>,
    pub descriptors: Vec<RefDesc>,
    pub metadata: BTreeMap<String, Vec<u8>>,
    pub unknown_fields: usize,
}

fn as_u64(v: &WireVal) -> Result<u64, String> {
    match v {
        WireVal::Varint(x) => Ok(*x),
        _ => Err("expected varint".into()),
    }
}
fn as_bytes(v: &WireVal) -> Result<&[u8], String> {
    match v {
        WireVal::Len(x) => Ok(x),
        _ => Err("expected length-delimited".into()),
    }
}

pub fn decode_dict(b: &[u8]) -> Result<RefDict, String> {
    let mut d = RefDict::default();
    for (f, v) in parse_fields(b)? {
        match f {
            1 => d.application_version = String::from_utf8(as_bytes(&v)?.to_vec()).map_err(|_| "version not utf-8".to_string())?,
            2 => d.source_checksum = as_bytes(&v)?.to_vec(),
            3 => d.source_total_size = as_u64(&v)?,
            4 => {
                let mut p = d.params.take().unwrap_or_default();
                for (f, v) in parse_fields(as_bytes(&v)?)? {
                    let x = as_u64(&v).unwrap_or(0) as u32;
                    match f {
                        1 => p.filter_bits = x,
                        2 => p.min = x,
                        3 => p.max = x,
                        4 => p.window = x,
                        5 => p.hash_length = x,
                        6 => p.algorithm = x,
                        _ => d.unknown_fields += 1,
                    }
                }
                d.params = Some(p);
            }
            5 => {
                let mut c = d.compression.take().unwrap_or((0, 0));
                for (f, v) in parse_fields(as_bytes(&v)?)? {
                    let x = as_u64(&v).unwrap_or(0) as u32;
                    match f {
                        2 => c.0 = x,
                        3 => c.1 = x,
                        _ => d.unknown_fields += 1,
                    }
                }
                d.compression = Some(c);
            }
            6 => match &v {
                WireVal::Varint(x) => d.rebuild_order.push(*x as u32),
                WireVal::Len(p) => {
                    let mut i = 0;
                    while i < p.len() {
                        d.rebuild_order.push(get_varint(p, &mut i)? as u32);
                    }
                }
                _ => return Err("rebuild_order: bad wire type".into()),
            },
            7 => {
                let mut c = RefDesc::default();
                for (f, v) in parse_fields(as_bytes(&v)?)? {
                    match f {
                        1 => c.checksum = as_bytes(&v)?.to_vec(),
                        3 => c.archive_size = as_u64(&v)? as u32,
                        4 => c.archive_offset = as_u64(&v)?,
                        5 => c.source_size = as_u64(&v)? as u32,
                        _ => d.unknown_fields += 1,
                    }
                }
                d.descriptors.push(c);
            }
            8 => {
                let mut k = String::new();
                let mut val = Vec::new();
                for (f, v) in parse_fields(as_bytes(&v)?)? {
                    match f {
                        1 => k = String::from_utf8(as_bytes(&v)?.to_vec()).map_err(|_| "metadata key not utf-8".to_string())?,
                        2 => val = as_bytes(&v)?.to_vec(),
                        _ => d.unknown_fields += 1,
                    }
                }
                d.metadata.insert(k, val);
            }
            _ => d.unknown_fields += 1,
        }
    }
    Ok(d)
}

/// Encoding choices a conforming writer is free to make.
#[derive(Clone, Debug, Default)]
pub struct EncodeStyle {
    /// unknown fields (number >= 100) sprinkled at every level
    pub unknown_fields: bool,
    /// rebuild_order as individual varint fields instead of one packed field
    pub unpacked_rebuild: bool,
    /// write default-valued scalars explicitly (proto3 writers may)
    pub explicit_defaults: bool,
    /// split the packed rebuild_order into two packed fields (legal: they concatenate)
    pub split_packed: bool,
}

fn put_unknown(out: &mut Vec<u8>, salt: u64) {
    match salt % 3 {
        0 => put_varint_field(out, 100 + (salt % 7) as u32, salt),
        1 => put_len_field(out, 200 + (salt % 5) as u32, b"unknown-extension"),
        _ => {
            put_tag(out, 300, 5);
            out.extend_from_slice(&(salt as u32).to_le_bytes());
        }
    }
}

pub fn encode_dict(d: &RefDict, style: &EncodeStyle) -> Vec<u8> {
    let mut out = Vec::new();
    let dflt = style.explicit_defaults;
    if style.unknown_fields {
        put_unknown(&mut out, 1);
    }
    if !d.application_version.is_empty() || dflt {
        put_len_field(&mut out, 1, d.application_version.as_bytes());
    }
    if !d.source_checksum.is_empty() || dflt {
        put_len_field(&mut out, 2, &d.source_checksum);
    }
    if d.source_total_size != 0 || dflt {
        put_varint_field(&mut out, 3, d.source_total_size);
    }
    if let Some(p) = &d.params {
        let mut m = Vec::new();
        for (f, v) in [(1, p.filter_bits), (2, p.min), (3, p.max), (4, p.window), (5, p.hash_length), (6, p.algorithm)] {
            if v != 0 || dflt {
                put_varint_field(&mut m, f, v as u64);
            }
        }
        if style.unknown_fields {
            put_unknown(&mut m, 2);
        }
        put_len_field(&mut out, 4, &m);
    }
    if let Some((c, l)) = d.compression {
        let mut m = Vec::new();
        if style.unknown_fields {
            put_unknown(&mut m, 3);
        }
        if c != 0 || dflt {
            put_varint_field(&mut m, 2, c as u64);
        }
        if l != 0 || dflt {
            put_varint_field(&mut m, 3, l as u64);
        }
        put_len_field(&mut out, 5, &m);
    }
    if !d.rebuild_order.is_empty() {
        if style.unpacked_rebuild {
            for &r in &d.rebuild_order {
                put_varint_field(&mut out, 6, r as u64);
            }
        } else {
            let parts: Vec<&[u32]> = if style.split_packed && d.rebuild_order.len() > 1 {
                let mid = d.rebuild_order.len() / 2;
                vec![&d.rebuild_order[..mid], &d.rebuild_order[mid..]]
            } else {
                vec![&d.rebuild_order[..]]
            };
            for part in parts {
                let mut m = Vec::new();
                for &r in part {
                    put_varint(&mut m, r as u64);
                }
                put_len_field(&mut out, 6, &m);
            }
        }
    }
    if style.unknown_fields {
        put_unknown(&mut out, 4);
    }
    for (i, c) in d.descriptors.iter().enumerate() {
        let mut m = Vec::new();
        if !c.checksum.is_empty() || dflt {
            put_len_field(&mut m, 1, &c.checksum);
        }
        if style.unknown_fields && i % 3 == 0 {
            put_unknown(&mut m, 5 + i as u64);
        }
        if c.archive_size != 0 || dflt {
            put_varint_field(&mut m, 3, c.archive_size as u64);
        }
        if c.archive_offset != 0 || dflt {
            put_varint_field(&mut m, 4, c.archive_offset);
        }
        if c.source_size != 0 || dflt {
            put_varint_field(&mut m, 5, c.source_size as u64);
        }
        put_len_field(&mut out, 7, &m);
    }
    for (k, v) in &d.metadata {
        let mut m = Vec::new();
        if !k.is_empty() || dflt {
            put_len_field(&mut m, 1, k.as_bytes());
        }
        if !v.is_empty() || dflt {
            put_len_field(&mut m, 2, v);
        }
        put_len_field(&mut out, 8, &m);
    }
    if style.unknown_fields {
        put_unknown(&mut out, 6);
    }
    out
}

/// Assemble a header around an encoded dictionary.
pub fn build_header(magic: &[u8; 6], dict: &[u8], chunk_data_offset: Option<u64>) -> Vec<u8> {
    let mut h = Vec::new();
    h.extend_from_slice(magic);
    h.extend_from_slice(&(dict.len() as u64).to_le_bytes());
    h.extend_from_slice(dict);
    let off = chunk_data_offset.unwrap_or(h.len() as u64 + 8 + 64);
    h.extend_from_slice(&off.to_le_bytes());
    let sum = blake2b512(&h);
    h.extend_from_slice(&sum);
    h
}

#[derive(Clone, Debug)]
pub struct RefArchive {
    pub legacy_magic: bool,
    pub dict: RefDict,
    pub dict_size: usize,
    pub header_len: usize,
    pub chunk_data_offset: u64,
    pub header_checksum: Vec<u8>,
}

/// Decode and verify the header of `bytes`.
pub fn decode_archive(bytes: &[u8]) -> Result<RefArchive, String> {
    if bytes.len() < 14 {
        return Err("shorter than the pre-header".into());
    }
    let legacy = &bytes[..6] == LEGACY_MAGIC;
    if &bytes[..6] != MAGIC && !legacy {
        return Err("bad magic".into());
    }
    let dict_size = u64::from_le_bytes(bytes[6..14].try_into().unwrap());
    let dict_size: usize = dict_size.try_into().map_err(|_| "dictionary size too large".to_string())?;
    let header_len = 14usize.checked_add(dict_size).and_then(|x| x.checked_add(72)).ok_or("dictionary size overflows")?;
    if bytes.len() < header_len {
        return Err(format!("file ({}) shorter than header ({})", bytes.len(), header_len));
    }
    let sum = blake2b512(&bytes[..header_len - 64]);
    if sum != bytes[header_len - 64..header_len] {
        return Err("header checksum mismatch".into());
    }
    let dict = decode_dict(&bytes[14..14 + dict_size])?;
    let chunk_data_offset = u64::from_le_bytes(bytes[14 + dict_size..22 + dict_size].try_into().unwrap());
    Ok(RefArchive { legacy_magic: legacy, dict, dict_size, header_len, chunk_data_offset, header_checksum: sum })
}

pub fn ref_decompress(ctype: u32, data: &[u8]) -> Result<Vec<u8>, String> {
    match ctype {
        0 => Err("compression NONE but stored size differs from source size".into()),
        1 => lzma::decompress(data).map_err(|e| format!("lzma: {:?}", e)),
        2 => zstd::stream::decode_all(data).map_err(|e| format!("zstd: {}", e)),
        3 => {
            let mut out = Vec::new();
            let mut inp = data;
            brotli_decompressor::BrotliDecompress(&mut inp, &mut out).map_err(|e| format!("brotli: {}", e))?;
            Ok(out)
        }
        t => Err(format!("unknown compression type {}", t)),
    }
}

/// Decode one stored chunk of the archive and check it against its descriptor.
pub fn ref_chunk(a: &RefArchive, bytes: &[u8], idx: usize) -> Result<Vec<u8>, String> {
    let d = a.dict.descriptors.get(idx).ok_or_else(|| format!("descriptor index {} out of range", idx))?;
    let start = a.chunk_data_offset.checked_add(d.archive_offset).ok_or("offset overflow")? as usize;
    let end = start.checked_add(d.archive_size as usize).ok_or("offset overflow")?;
    if end > bytes.len() {
        return Err(format!("chunk {} at {}..{} beyond end of file {}", idx, start, end, bytes.len()));
    }
    let stored = &bytes[start..end];
    let plain = if d.archive_size == d.source_size {
        stored.to_vec()
    } else {
        let (ctype, _) = a.dict.compression.ok_or("no compression message")?;
        ref_decompress(ctype, stored)?
    };
    if plain.len() != d.source_size as usize {
        return Err(format!("chunk {} decodes to {} bytes, descriptor says {}", idx, plain.len(), d.source_size));
    }
    let sum = blake2b512(&plain);
    let hl = d.checksum.len().min(64);
    if sum[..hl] != d.checksum[..hl] {
        return Err(format!("chunk {} hash mismatch", idx));
    }
    Ok(plain)
}

/// Rebuild the source the archive describes, using only the reference decoders.
pub fn ref_unpack(a: &RefArchive, bytes: &[u8]) -> Result<Vec<u8>, String> {
    let mut cache: Vec<Option<Vec<u8>>> = vec![None; a.dict.descriptors.len()];
    let mut out = Vec::new();
    for &i in &a.dict.rebuild_order {
        let i = i as usize;
        if i >= cache.len() {
            return Err(format!("rebuild index {} out of range ({} descriptors)", i, cache.len()));
        }
        if cache[i].is_none() {
            cache[i] = Some(ref_chunk(a, bytes, i)?);
        }
        out.extend_from_slice(cache[i].as_ref().unwrap());
    }
    Ok(out)
}
