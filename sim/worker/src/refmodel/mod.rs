pub mod buztable;
pub mod chunker;
pub mod format;
pub mod encoder;
