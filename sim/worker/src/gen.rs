//! Tape-driven generators: sources, chunker configurations, compression, seeds, edits.
//! Index 0 of every weighted choice is the simplest case, so that a tape of zeros is the
//! simplest scenario and shrinking moves toward it.

use bitar::chunker::{Config, FilterBits, FilterConfig};
use serde_json::{json, Value};
use simkit::prng::Rng;
use simkit::Tape;

pub fn t<R>(f: impl FnOnce(&mut Tape) -> R) -> R {
    simkit::with(|s| f(&mut s.tape))
}
pub fn draw(n: u32) -> u32 {
    simkit::draw(n)
}
pub fn chance(num: u32, den: u32) -> bool {
    simkit::chance(num, den)
}

#[derive(Clone, Copy, Debug, PartialEq, Eq)]
pub enum Algo {
    Fixed,
    RollSum,
    BuzHash,
}

#[derive(Clone, Copy, Debug, PartialEq, Eq)]
pub struct Cfg {
    pub algo: Algo,
    pub window: usize,
    pub min: usize,
    pub max: usize,
    pub bits: u32,
    /// average size to hand to the CLI (`--avg-chunk-size`), consistent with `bits`
    pub avg: usize,
}

impl Cfg {
    pub fn fixed(n: usize) -> Cfg {
        Cfg { algo: Algo::Fixed, window: 0, min: 0, max: n, bits: 0, avg: 0 }
    }
    pub fn to_config(&self) -> Config {
        let fc = FilterConfig {
            filter_bits: FilterBits::from_bits(self.bits),
            min_chunk_size: self.min,
            max_chunk_size: self.max,
            window_size: self.window,
        };
        match self.algo {
            Algo::Fixed => Config::FixedSize(self.max),
            Algo::RollSum => Config::RollSum(fc),
            Algo::BuzHash => Config::BuzHash(fc),
        }
    }
    pub fn json(&self) -> Value {
        match self.algo {
            Algo::Fixed => json!({"algo": "FixedSize", "size": self.max}),
            a => json!({"algo": format!("{:?}", a), "window": self.window, "min": self.min, "max": self.max, "bits": self.bits}),
        }
    }
    /// CLI arguments selecting this configuration
    pub fn cli_args(&self) -> Vec<String> {
        match self.algo {
            Algo::Fixed => vec!["--fixed-size".into(), self.max.to_string()],
            a => vec![
                "--hash-chunking".into(),
                format!("{:?}", a),
                "--avg-chunk-size".into(),
                self.avg.to_string(),
                "--min-chunk-size".into(),
                self.min.to_string(),
                "--max-chunk-size".into(),
                self.max.to_string(),
                "--rolling-window-size".into(),
                self.window.to_string(),
            ],
        }
    }
    pub fn expected_avg(&self) -> usize {
        match self.algo {
            Algo::Fixed => self.max,
            _ => ((1usize << (self.bits.min(24))) + self.min).min(self.max).max(1),
        }
    }
    /// size unit for edits of related data: an average chunk, at most 64 KiB
    pub fn edit_unit(&self) -> usize {
        self.expected_avg().min(64 * 1024)
    }
}

/// `cli`: restrict to what the command line can express (min <= avg <= max).
/// `big`: allow chunk sizes around and above the 1 MiB refill buffer.
pub fn gen_config(cli: bool, big: bool) -> Cfg {
    t(|t| {
        let algo = match t.weighted(&[2, 3, 3]) {
            0 => Algo::Fixed,
            1 => Algo::RollSum,
            _ => Algo::BuzHash,
        };
        if algo == Algo::Fixed {
            let n = match t.weighted(&[6, 4, if big { 1 } else { 0 }]) {
                0 => *t.pick(&[64usize, 1, 2, 3, 7, 100, 512, 1000, 4096]),
                1 => 1 + t.draw(4096) as usize,
                _ => *t.pick(&[65536usize, 1 << 20, (1 << 20) - 1, (1 << 20) + 1, 2 << 20, (2 << 20) + 1, 3 << 19]),
            };
            return Cfg::fixed(n);
        }
        let window = match t.weighted(&[6, 3]) {
            0 => *t.pick(&[16usize, 1, 2, 3, 4, 8, 31, 32, 33, 64, 255, 256]),
            _ => 1 + t.draw(256) as usize,
        };
        let bits = match t.weighted(&[8, 3, 1]) {
            0 => 1 + t.draw(8),
            1 => 9 + t.draw(6),
            _ => 15 + t.draw(10),
        };
        // CLI: bits = 30 - leading_zeros(avg)  <=>  avg in [2^(bits+1), 2^(bits+2))
        let avg_lo = 1usize << (bits + 1);
        let avg = if t.chance(1, 4) { avg_lo + t.draw(avg_lo.min(1 << 20) as u32) as usize } else { avg_lo };
        let spread = avg_lo.min(1 << 16) as u32 * 2;
        let mut min = match t.weighted(&[3, 2, 2, 2, 2, 3]) {
            0 => 0,
            1 => 1,
            2 => t.draw(window as u32) as usize,
            3 => window,
            4 => window + 1,
            _ => window + 1 + t.draw(spread) as usize,
        };
        if cli && min > avg {
            min = avg;
        }
        // big mode: sometimes a minimum chunk size beyond three refill buffers, so that one chunk
        // spans several refills whatever the data looks like
        if big && !cli && t.chance(1, 4) {
            min = (13 << 18) + t.draw(3 << 18) as usize;
        }
        let floor = min.max(window).max(1).max(if cli { avg } else { 1 });
        let max = match t.weighted(&[3, 1, 4, if big { 1 } else { 0 }]) {
            0 => floor + t.draw(spread * 2) as usize,
            1 => floor,
            2 => floor + 1 + t.draw(spread * 4) as usize,
            _ => floor.max(*t.pick(&[(1usize << 20) - 1, 1 << 20, (1 << 20) + 1, 3 << 19, 2 << 20, 16 << 20])),
        };
        // RollSum has no "window <= max" rule (BuzHash has, for its init phase): the window simply
        // spans earlier chunks. Other tools may write such archives, bita itself does with a
        // maximum below the default window; library level only
        if algo == Algo::RollSum && window >= 2 && t.chance(1, 10) {
            if !cli {
                let max = 1 + t.draw(window as u32 - 1) as usize;
                let min = min.min(max);
                return Cfg { algo, window, min, max, bits, avg };
            }
            // the command line wants min <= avg <= max
            if avg < window {
                let max = avg + t.draw((window - avg) as u32) as usize;
                let min = min.min(avg);
                return Cfg { algo, window, min, max, bits, avg };
            }
        }
        Cfg { algo, window, min, max, bits, avg }
    })
}

#[derive(Clone, Copy, Debug, PartialEq, Eq)]
pub enum Comp {
    None,
    Brotli(u32),
    Zstd(u32),
    Lzma(u32),
}

impl Comp {
    /// expensive per chunk (large encoder state): keep the number of chunks small
    pub fn expensive(self) -> bool {
        matches!(self, Comp::Zstd(l) if l >= 14) || matches!(self, Comp::Lzma(l) if l >= 3) || matches!(self, Comp::Brotli(l) if l >= 10)
    }
    pub fn to_bitar(self) -> Option<bitar::Compression> {
        match self {
            Comp::None => None,
            Comp::Brotli(l) => Some(bitar::Compression::brotli(l).unwrap()),
            Comp::Zstd(l) => Some(bitar::Compression::zstd(l).unwrap()),
            Comp::Lzma(l) => Some(bitar::Compression::lzma(l).unwrap()),
        }
    }
    pub fn cli_args(self) -> Vec<String> {
        let (n, l) = match self {
            Comp::None => ("none", 6),
            Comp::Brotli(l) => ("brotli", l),
            Comp::Zstd(l) => ("zstd", l),
            Comp::Lzma(l) => ("lzma", l),
        };
        vec!["--compression".into(), n.into(), "--compression-level".into(), l.to_string()]
    }
    pub fn json(self) -> Value {
        json!(format!("{:?}", self))
    }
}

pub fn gen_compression() -> Comp {
    t(|t| match t.weighted(&[4, 5, 3, 1]) {
        0 => Comp::None,
        1 => Comp::Brotli(match t.weighted(&[4, 2, 1]) {
            0 => 1 + t.draw(4),
            1 => 5 + t.draw(5),
            _ => 10 + t.draw(2),
        }),
        2 => Comp::Zstd(match t.weighted(&[12, 4, 1]) {
            0 => 1 + t.draw(6),
            1 => 7 + t.draw(10),
            _ => 17 + t.draw(6),
        }),
        _ => Comp::Lzma(match t.weighted(&[8, 1]) {
            0 => 1 + t.draw(3),
            _ => 4 + t.draw(3),
        }),
    })
}

pub fn gen_hash_length() -> usize {
    t(|t| match t.weighted(&[4, 2, 2, 1, 1, 2]) {
        0 => 64,
        1 => 4,
        2 => 8,
        3 => 16,
        4 => 32,
        _ => 4 + t.draw(61) as usize,
    })
}

pub fn gen_buffers() -> usize {
    // (one in six far beyond anything a machine has cores for: the count is the user's to choose,
    // and nothing but the degree of concurrency may depend on it -- S12-A clamps the maximum
    // chunk size to 1 GiB / (2 n))
    let n = *t(|t| t.pick(&[1usize, 2, 3, 8, 64, 1, 2, 3, 8, 64, 4096, 100_000]));
    if n > 64 {
        simkit::count("probe:buffered-chunks-in-the-thousands");
    }
    n
}

#[derive(Clone, Debug)]
pub struct SourceSpec {
    pub kind: &'static str,
    pub len: usize,
    pub seed: u64,
    pub param: usize,
}

impl SourceSpec {
    pub fn json(&self) -> Value {
        json!({"kind": self.kind, "len": self.len, "data_seed": format!("{:016x}", self.seed), "param": self.param})
    }
}

pub const KINDS: [&str; 8] = ["random", "constant", "periodic", "blocks", "zero-runs", "small-alphabet", "text", "mixed"];

pub fn expand(spec: &SourceSpec) -> Vec<u8> {
    let mut rng = Rng::new(spec.seed);
    let len = spec.len;
    let mut out = vec![0u8; len];
    match spec.kind {
        "random" => rng.fill(&mut out),
        "constant" => {
            let v = (spec.param & 0xff) as u8;
            out.iter_mut().for_each(|b| *b = v);
        }
        "periodic" => {
            let p = spec.param.max(1);
            let mut pat = vec![0u8; p];
            rng.fill(&mut pat);
            for (i, b) in out.iter_mut().enumerate() {
                *b = pat[i % p];
            }
        }
        "blocks" => {
            // blocks from a small pool: forces duplicate chunks
            let bs = spec.param.max(1);
            let pool_n = 1 + rng.below(6) as usize;
            let mut pool = vec![vec![0u8; bs]; pool_n];
            for b in pool.iter_mut() {
                rng.fill(b);
            }
            let mut i = 0;
            while i < len {
                let b = &pool[rng.below(pool_n as u64) as usize];
                let n = bs.min(len - i);
                out[i..i + n].copy_from_slice(&b[..n]);
                i += n;
            }
        }
        "zero-runs" => {
            rng.fill(&mut out);
            let mut i = 0;
            while i < len {
                let run = 1 + rng.below(spec.param.max(2) as u64) as usize;
                if rng.below(2) == 0 {
                    let e = (i + run).min(len);
                    out[i..e].iter_mut().for_each(|b| *b = 0);
                }
                i += run;
            }
        }
        "small-alphabet" => {
            let k = 2 + (spec.param % 2) as u64;
            let syms = [0u8, 1, 0xff];
            for b in out.iter_mut() {
                *b = syms[rng.below(k) as usize];
            }
        }
        "mixed" => {
            // stretches of text and of random bytes, each several chunks long at best: runs of
            // chunks that do not shrink next to chunks that do
            let stretch = spec.param.max(16);
            let text = expand(&SourceSpec { kind: "text", len, seed: spec.seed ^ 0x5a5a, param: 0 });
            rng.fill(&mut out);
            let mut i = 0;
            let mut compressible = rng.below(2) == 0;
            while i < len {
                let n = (stretch / 2 + rng.below(stretch as u64 + 1) as usize).min(len - i);
                if compressible {
                    out[i..i + n].copy_from_slice(&text[i..i + n]);
                }
                compressible = !compressible;
                i += n;
            }
        }
        _ => {
            // "text": words from a small dictionary, compressible
            let words: Vec<Vec<u8>> = (0..16)
                .map(|_| {
                    let n = 2 + rng.below(9) as usize;
                    (0..n).map(|_| b'a' + rng.below(26) as u8).collect()
                })
                .collect();
            let mut i = 0;
            while i < len {
                let w = &words[rng.below(16) as usize];
                for &c in w.iter().chain(std::iter::once(&b' ')) {
                    if i < len {
                        out[i] = c;
                        i += 1;
                    }
                }
            }
        }
    }
    out
}

/// Source length: biased small, with lengths that sit on the configuration's edges.
pub fn gen_len(cfg: &Cfg, max_len: usize) -> usize {
    t(|t| {
        let avg = cfg.expected_avg();
        // keep the number of chunks (= simulated I/O operations) bounded: mostly <= 300
        let max_chunks = *t.pick(&[300usize, 40, 40, 300, 300, 2500]);
        let cap = avg.saturating_mul(max_chunks).min(max_len);
        let n = match t.weighted(&[1, 2, 6, 6, 3, 4]) {
            0 => 0,
            1 => 1 + t.draw(16) as usize,
            2 => {
                // a handful to a few dozen chunks
                let chunks = 1 + t.draw(40) as usize;
                (avg.saturating_mul(chunks)).saturating_add(t.draw(avg.min(1 << 20) as u32 + 1) as usize)
            }
            3 => 17 + t.draw(16 * 1024) as usize,
            4 => 16 * 1024 + t.draw(112 * 1024) as usize,
            _ => {
                // edges of the configuration
                let base = *t.pick(&[cfg.min, cfg.max, cfg.window, cfg.max.saturating_mul(2), cfg.max.saturating_mul(3), cfg.min + cfg.window]);
                (base + t.draw(3) as usize).saturating_sub(1)
            }
        };
        let n = n.min(cap.max(16));
        // fixed-size chunking: end exactly on a chunk boundary in a third of the runs
        if cfg.algo == Algo::Fixed && n >= cfg.max && t.chance(1, 3) {
            n - n % cfg.max
        } else {
            n
        }
    })
}

pub fn gen_source_spec(len: usize) -> SourceSpec {
    t(|t| {
        let kind = KINDS[t.weighted(&[6, 1, 2, 4, 2, 1, 3, 2])];
        let param = match kind {
            "constant" => *t.pick(&[0usize, 1, 0x55, 0xff]),
            "periodic" => 1 + t.draw(300) as usize,
            "blocks" => *t.pick(&[64usize, 1, 7, 100, 512, 1000, 4096, 5000]),
            "zero-runs" => *t.pick(&[8usize, 64, 300, 5000]),
            "small-alphabet" => t.draw(2) as usize,
            // (stretch length: a few bytes up to a good part of the source)
            "mixed" => *t.pick(&[64usize, 1000, 8000, 40000]).min(&(len / 3).max(16)),
            _ => 0,
        };
        SourceSpec { kind, len, seed: t.seed64(), param }
    })
}

/// Upper bound of a source that will be compressed with `comp`: the expensive settings (brotli
/// 10-11, zstd >= 14, lzma >= 3) cost seconds per MiB and minutes on unlucky low-entropy data
/// (a C16 run at seed 2 sat in brotli's zopfli matcher for more than 220 s and had its worker
/// killed by the watchdog), so they get a few chunks and never more than 256 KiB.
pub fn len_cap(comp: Comp, cfg: &Cfg, max_len: usize) -> usize {
    if comp.expensive() {
        max_len.min(cfg.expected_avg().saturating_mul(16).max(64)).min(256 * 1024)
    } else {
        max_len
    }
}

/// A source sized for `cfg`, at most `max_len` bytes.
pub fn gen_source(cfg: &Cfg, max_len: usize) -> (SourceSpec, Vec<u8>) {
    let len = gen_len(cfg, max_len);
    let mut spec = gen_source_spec(len);
    let mut data = expand(&spec);
    cap_chunks(cfg, &mut spec, &mut data);
    (spec, data)
}

/// Cut `data` so that it has at most MAX_CHUNKS chunks under `cfg`.
pub fn cap_chunks(cfg: &Cfg, spec: &mut SourceSpec, data: &mut Vec<u8>) {
    // Workload cap. A tiny minimum chunk size paired with data on which every window hash
    // matches (long zero runs under BuzHash) yields millions of one-byte chunks: legitimate, but
    // one run then costs minutes and needs more polls than the livelock budget allows (seen once
    // in 1.4 M thorough C03 runs: a StepBudget false alarm). The source is cut at a chunk
    // boundary, so the kept chunks are exactly those of the longer source.
    let floor = if cfg.algo == Algo::Fixed { cfg.max } else { cfg.min }.max(1);
    if data.len() / floor > MAX_CHUNKS {
        let chunks = crate::refmodel::chunker::ref_chunks(cfg, data);
        if chunks.len() > MAX_CHUNKS {
            let (o, l) = chunks[MAX_CHUNKS - 1];
            data.truncate(o + l);
            spec.len = data.len();
            spec.kind = "capped";
            simkit::count("probe:source-capped-at-chunk-limit");
        }
    }
}

/// most chunks one generated source may have
pub const MAX_CHUNKS: usize = 100_000;

pub fn gen_metadata() -> std::collections::BTreeMap<String, Vec<u8>> {
    t(|t| {
        let mut m = std::collections::BTreeMap::new();
        let n = t.weighted(&[6, 2, 1, 1]);
        for i in 0..n {
            let key = match t.draw(4) {
                0 => format!("k{}", i),
                1 => String::new(),
                2 => "a key with spaces \u{e5}\u{e4}\u{f6}".to_string(),
                _ => format!("key-{}", t.draw(1000)),
            };
            let val: Vec<u8> = match t.draw(4) {
                0 => b"value".to_vec(),
                1 => Vec::new(),
                2 => (0..t.draw(64)).map(|_| t.draw(256) as u8).collect(),
                _ => vec![0u8; t.draw(300) as usize],
            };
            m.insert(key, val);
        }
        m
    })
}

#[derive(Clone, Debug)]
pub struct Edit {
    pub kind: &'static str,
    pub a: usize,
    pub b: usize,
    pub seed: u64,
}

/// Derive related data (a seed, a prior output) from `src`.
pub fn gen_related(src: &[u8], unit: usize) -> (Vec<Value>, Vec<u8>) {
    let n_edits = t(|t| t.weighted(&[2, 4, 3, 2, 1]));
    let mut cur = src.to_vec();
    let mut desc = Vec::new();
    for _ in 0..n_edits {
        let (kind, a, b, seed) = t(|t| {
            let kind = *t.pick(&["insert", "delete", "replace", "move", "duplicate", "truncate", "append", "swap"]);
            let len = cur.len().max(1) as u32;
            let a = t.draw(len + 1) as usize;
            let unit = unit.clamp(1, 64 * 1024);
            let b = match t.weighted(&[3, 3, 1]) {
                0 => 1 + t.draw(16) as usize,
                1 => 1 + t.draw((unit * 3) as u32) as usize,
                _ => unit,
            };
            (kind, a, b, t.seed64())
        });
        let mut rng = Rng::new(seed);
        let a = a.min(cur.len());
        let e = (a + b).min(cur.len());
        match kind {
            "insert" | "append" => {
                let mut blk = vec![0u8; b];
                rng.fill(&mut blk);
                let at = if kind == "append" { cur.len() } else { a };
                cur.splice(at..at, blk);
            }
            "delete" => {
                cur.drain(a..e);
            }
            "replace" => {
                // same size, different content
                let mut blk = vec![0u8; e - a];
                rng.fill(&mut blk);
                cur[a..e].copy_from_slice(&blk);
            }
            "move" => {
                let blk: Vec<u8> = cur.drain(a..e).collect();
                let to = rng.below(cur.len() as u64 + 1) as usize;
                cur.splice(to..to, blk);
            }
            "duplicate" => {
                let blk: Vec<u8> = cur[a..e].to_vec();
                let to = rng.below(cur.len() as u64 + 1) as usize;
                cur.splice(to..to, blk);
            }
            "truncate" => cur.truncate(a),
            _ => {
                // swap two blocks
                let c = rng.below(cur.len() as u64 + 1) as usize;
                let f = (c + (e - a)).min(cur.len());
                if e <= c && f - c == e - a {
                    for i in 0..(e - a) {
                        cur.swap(a + i, c + i);
                    }
                }
            }
        }
        desc.push(json!({"edit": kind, "at": a, "len": b}));
    }
    (desc, cur)
}

/// Seed or prior-output content: related to the source, unrelated, empty or the source itself.
pub fn gen_seed_data(src: &[u8], unit: usize) -> (Value, Vec<u8>) {
    match t(|t| t.weighted(&[6, 2, 1, 1, 1])) {
        0 => {
            let (d, data) = gen_related(src, unit);
            (json!({"related": d, "len": data.len()}), data)
        }
        1 => (json!("source"), src.to_vec()),
        2 => (json!("empty"), Vec::new()),
        3 => {
            let len = t(|t| t.draw((src.len().max(16) * 2).min(1 << 20) as u32)) as usize;
            let spec = gen_source_spec(len);
            (json!({"unrelated": spec.json()}), expand(&spec))
        }
        _ => {
            // the source's chunks permuted at unit granularity
            let unit = unit.max(1);
            let mut blocks: Vec<&[u8]> = src.chunks(unit).collect();
            let mut rng = Rng::new(t(|t| t.seed64()));
            for i in (1..blocks.len()).rev() {
                let j = rng.below(i as u64 + 1) as usize;
                blocks.swap(i, j);
            }
            let data: Vec<u8> = blocks.concat();
            (json!({"permuted_unit": unit, "len": data.len()}), data)
        }
    }
}

pub fn hex(b: &[u8]) -> String {
    let mut s = String::with_capacity(b.len() * 2);
    for x in b {
        s.push_str(&format!("{:02x}", x));
    }
    s
}

pub fn blake2b512(data: &[u8]) -> Vec<u8> {
    use blake2::{Blake2b512, Digest};
    let mut h = Blake2b512::new();
    h.update(data);
    h.finalize().to_vec()
}

/// short fingerprint for messages
pub fn fp(data: &[u8]) -> String {
    format!("len={} b2={}", data.len(), &hex(&blake2b512(data))[..12])
}

pub fn first_diff(a: &[u8], b: &[u8]) -> Option<usize> {
    let n = a.len().min(b.len());
    for i in 0..n {
        if a[i] != b[i] {
            return Some(i);
        }
    }
    if a.len() != b.len() {
        Some(n)
    } else {
        None
    }
}


/// A chunk of exactly `n` bytes whose compressed form (with bitar's own compressor, the one the
/// writers use) is also exactly `n` bytes: the corner of the "store raw iff not smaller" rule.
/// None when the search does not hit the size exactly.
pub fn equal_size_chunk(n: usize, comp: Comp, seed: u64) -> Option<Vec<u8>> {
    let c = comp.to_bitar()?;
    let clen = |data: &[u8]| -> usize { bitar::Chunk::from(data.to_vec()).compress(Some(c)).map(|x| x.len()).unwrap_or(usize::MAX) };
    let mut rng = Rng::new(seed);
    for _attempt in 0..3 {
        let mut base = vec![0u8; n];
        rng.fill(&mut base);
        let make = |z: usize| -> Vec<u8> {
            // the last z bytes become a short repeating pattern
            let mut v = base.clone();
            for i in (n - z)..n {
                v[i] = b"ab"[i % 2];
            }
            v
        };
        if clen(&make(0)) < n || clen(&make(n)) > n {
            continue;
        }
        let (mut lo, mut hi) = (0usize, n);
        while lo < hi {
            let mid = (lo + hi) / 2;
            if clen(&make(mid)) > n {
                lo = mid + 1;
            } else {
                hi = mid;
            }
        }
        for z in lo.saturating_sub(6)..=(lo + 6).min(n) {
            let v = make(z);
            if clen(&v) == n {
                return Some(v);
            }
        }
    }
    None
}
