//! bitasim worker: runs batches of simulated executions of one property, minimises and
//! reports violations, replays tapes. Single-threaded; the orchestrator (/verif/check) runs
//! many of these in parallel.

mod alloc;
mod cli;
mod gen;
mod harness;
mod net;
mod props;
mod refmodel;
mod scen;
mod simio;
mod sys;

use std::collections::{BTreeMap, HashSet};
use std::io::Write;
use std::path::PathBuf;

use serde_json::{json, Value};
use simkit::prng::mix;
use simkit::Tape;

use harness::{minimise, run_one, Tier};

fn arg<'a>(args: &'a [String], name: &str) -> Option<&'a str> {
    args.iter().position(|a| a == name).and_then(|i| args.get(i + 1)).map(|s| s.as_str())
}

fn prop_hash(p: &str) -> u64 {
    let mut h: u64 = 0xcbf2_9ce4_8422_2325;
    for &c in p.as_bytes() {
        h ^= c as u64;
        h = h.wrapping_mul(0x0000_0100_0000_01B3);
    }
    h
}

pub fn run_seed(seed: u64, prop: &str, index: u64) -> u64 {
    mix(&[seed, prop_hash(prop), index])
}

fn make_sandbox() -> PathBuf {
    let base = if std::path::Path::new("/dev/shm").is_dir() { PathBuf::from("/dev/shm") } else { std::env::temp_dir() };
    let dir = base.join(format!("bitasim.{}", std::process::id()));
    let _ = std::fs::remove_dir_all(&dir);
    std::fs::create_dir_all(&dir).expect("create sandbox");
    std::env::set_current_dir(&dir).expect("chdir sandbox");
    dir
}

/// abandoned run threads keep their files open
fn raise_fd_limit() {
    unsafe {
        let mut rl: libc::rlimit = std::mem::zeroed();
        if libc::getrlimit(libc::RLIMIT_NOFILE, &mut rl) == 0 && rl.rlim_cur < rl.rlim_max {
            rl.rlim_cur = rl.rlim_max.min(1 << 20);
            libc::setrlimit(libc::RLIMIT_NOFILE, &rl);
        }
    }
}

fn make_sandbox_n(n: u32) -> PathBuf {
    let base = if std::path::Path::new("/dev/shm").is_dir() { PathBuf::from("/dev/shm") } else { std::env::temp_dir() };
    let dir = base.join(format!("bitasim.{}.{}", std::process::id(), n));
    let _ = std::fs::remove_dir_all(&dir);
    std::fs::create_dir_all(&dir).expect("create sandbox");
    std::env::set_current_dir(&dir).expect("chdir sandbox");
    dir
}

fn load_known(path: Option<&str>) -> Vec<(String, String)> {
    // (property, class prefix) of findings with status "known"
    let Some(p) = path else { return Vec::new() };
    let Ok(text) = std::fs::read_to_string(p) else { return Vec::new() };
    let Ok(v) = serde_json::from_str::<Value>(&text) else { return Vec::new() };
    let mut out = Vec::new();
    if let Some(list) = v.get("findings").and_then(|f| f.as_array()) {
        for f in list {
            if f.get("status").and_then(|s| s.as_str()) == Some("known") {
                if let (Some(p), Some(m)) = (f.get("property").and_then(|s| s.as_str()), f.get("match").and_then(|s| s.as_str())) {
                    out.push((p.to_string(), m.to_string()));
                }
            }
        }
    }
    out
}

fn main() {
    let args: Vec<String> = std::env::args().collect();
    if args.len() < 2 {
        eprintln!("usage: bitasim run|replay|list ...");
        std::process::exit(2);
    }
    unsafe {
        // every run executes on a fresh thread; keep all allocations in the one main arena and
        // never hand memory back to the kernel, or each run pays ~20k page faults for the
        // 1 MiB chunker / file buffers
        libc::mallopt(libc::M_ARENA_MAX, 1);
        libc::mallopt(libc::M_MMAP_THRESHOLD, 1 << 30);
        libc::mallopt(libc::M_TRIM_THRESHOLD, 1 << 30);
        libc::mallopt(libc::M_TOP_PAD, 64 << 20);
    }
    // warm up process-global caches (num_cpus reads /proc and cgroup files once per process,
    // clap and std initialise statics) so that the first run of a process executes exactly
    // like every later one
    let _ = num_cpus_warmup();
    harness::install_panic_hook();
    harness::install_context_hooks();
    harness::install_need_threads_hook();
    raise_fd_limit();
    // diagnostic overrides, never set by ./check
    if let Some(v) = std::env::var("BITASIM_STEP_BUDGET").ok().and_then(|v| v.parse::<u64>().ok()) {
        simkit::DEFAULT_STEP_BUDGET.store(v, std::sync::atomic::Ordering::Relaxed);
    }
    if let Some(v) = std::env::var("BITASIM_RUN_TIMEOUT").ok().and_then(|v| v.parse::<u64>().ok()) {
        harness::RUN_TIMEOUT_SECS.store(v, std::sync::atomic::Ordering::Relaxed);
    }
    harness::install_logger();
    match args[1].as_str() {
        "list" => {
            for (name, _) in props::REGISTRY {
                println!("{}", name);
            }
        }
        "run" => cmd_run(&args),
        "replay" => cmd_replay(&args),
        _ => {
            eprintln!("unknown command");
            std::process::exit(2);
        }
    }
}

fn tier_of(args: &[String]) -> Tier {
    match arg(args, "--tier") {
        Some("thorough") => Tier::Thorough,
        _ => Tier::Quick,
    }
}

fn cmd_run(args: &[String]) {
    let prop = arg(args, "--prop").expect("--prop").to_string();
    let seed: u64 = arg(args, "--seed").unwrap_or("1").parse().expect("seed");
    let start: u64 = arg(args, "--start").unwrap_or("0").parse().expect("start");
    let count: u64 = arg(args, "--count").unwrap_or("100").parse().expect("count");
    let stride: u64 = arg(args, "--stride").unwrap_or("1").parse().expect("stride");
    let n_samples: usize = arg(args, "--samples").unwrap_or("0").parse().unwrap();
    let max_secs: f64 = arg(args, "--max-secs").unwrap_or("1e9").parse().unwrap();
    let tier = tier_of(args);
    let known = load_known(arg(args, "--known"));
    let f = props::lookup(&prop).unwrap_or_else(|| {
        eprintln!("unknown property {}", prop);
        std::process::exit(2);
    });
    let mut sandbox = make_sandbox();
    let progress_path = arg(args, "--progress").map(PathBuf::from);
    let mut trace_out = arg(args, "--trace-out").map(|p| std::io::BufWriter::new(std::fs::File::create(p).expect("trace-out")));
    let mut hashes_out = arg(args, "--hashes-out").map(|p| std::io::BufWriter::new(std::fs::File::create(p).expect("hashes-out")));

    let t0 = std::time::Instant::now();
    let mut runs = 0u64;
    let mut steps = 0u64;
    let mut sim_ns = 0u128;
    let mut tasks = 0u64;
    let mut tape_draws = 0u64;
    let mut counters: BTreeMap<String, u64> = BTreeMap::new();
    let mut nontrivial = 0u64;
    let mut scheds: HashSet<u64> = HashSet::new();
    let mut violations: Vec<Value> = Vec::new();
    let mut seen_classes: BTreeMap<String, u64> = BTreeMap::new();
    let mut known_hits: BTreeMap<String, u64> = BTreeMap::new();
    let mut harness_errors: Vec<Value> = Vec::new();
    let mut samples: Vec<Value> = Vec::new();
    let mut stopped_early = false;
    let mut hung = 0u32;
    let mut aborted_mins = 0u32;

    for k in 0..count {
        let index = start + k * stride;
        if t0.elapsed().as_secs_f64() > max_secs {
            stopped_early = true;
            break;
        }
        if let Some(p) = &progress_path {
            let _ = std::fs::write(p, format!("{}", index));
        }
        let want_sample = samples.len() < n_samples;
        let tape = Tape::search(run_seed(seed, &prop, index));
        let dump = std::env::var("BITASIM_DUMP").ok().and_then(|v| v.parse::<u64>().ok()) == Some(index);
        let t_run = std::time::Instant::now();
        let r = run_one(&prop, f, tier, &sandbox, tape, dump, want_sample);
        if std::env::var("BITASIM_SLOW").is_ok() && t_run.elapsed().as_millis() > 200 {
            eprintln!("SLOW index {} {} ms steps {} tasks {}", index, t_run.elapsed().as_millis(), r.steps, r.tasks_run);
        }
        if dump {
            for e in &r.events {
                eprintln!("{}", e);
            }
        }
        runs += 1;
        steps += r.steps;
        sim_ns += r.sim_time_ns as u128;
        tasks += r.tasks_run;
        tape_draws += r.tape.len() as u64;
        for (k, v) in &r.counters {
            *counters.entry(k.clone()).or_insert(0) += v;
        }
        if scheds.insert(r.sched_hash) {
            if let Some(w) = hashes_out.as_mut() {
                // second stream in the same file: schedule hashes, tagged by the top bit pattern
                let _ = w.write_all(&(r.sched_hash | 1).to_le_bytes());
                let _ = w.write_all(&0xFFFF_FFFF_FFFF_FFFFu64.to_le_bytes());
            }
        }
        if let Some(w) = trace_out.as_mut() {
            let _ = writeln!(w, "{} {:016x} {}", index, r.trace_hash, r.verdict.violation.as_ref().map(|v| v.class.as_str()).unwrap_or("-"));
        }
        if r.verdict.nontrivial {
            nontrivial += 1;
            if let Some(w) = hashes_out.as_mut() {
                let _ = w.write_all(&(r.trace_hash ^ r.verdict.shape.rotate_left(32)).to_le_bytes());
            }
        }
        if let Some(e) = &r.harness_error {
            if harness_errors.len() < 5 {
                harness_errors.push(json!({"index": index, "error": e}));
            }
            hung += 1;
            if hung >= 3 {
                // do not spend the whole budget waiting for runs that cannot come back
                stopped_early = true;
                break;
            }
            // the abandoned thread may still sit in the old sandbox: move on to a fresh one
            sandbox = make_sandbox_n(hung);
            continue;
        }
        if want_sample {
            if let Some(s) = r.verdict.sample.clone() {
                samples.push(json!({"index": index, "case": s, "trace_hash": format!("{:016x}", r.trace_hash), "nontrivial": r.verdict.nontrivial}));
            }
        }
        if let Some(v) = &r.verdict.violation {
            if let Some((_, m)) = known.iter().find(|(p, m)| p == &prop && v.class.starts_with(m.as_str())) {
                *known_hits.entry(m.clone()).or_insert(0) += 1;
                continue;
            }
            let n = seen_classes.entry(v.class.clone()).or_insert(0);
            *n += 1;
            if *n == 1 && violations.len() < 3 {
                // (a replay gets ten times what the failing run took, at least 10 s)
                let replay_timeout = (t_run.elapsed().as_secs() * 10).clamp(10, 120);
                let (min_tape, replays, aborted) = minimise(&prop, f, tier, &sandbox, r.tape.clone(), &v.class, 300, 20.0, replay_timeout);
                if aborted {
                    // an abandoned replay may still sit in the sandbox
                    aborted_mins += 1;
                    sandbox = make_sandbox_n(100 + aborted_mins);
                }
                // decode the minimised run for human readers
                let rr = run_one(&prop, f, tier, &sandbox, Tape::replay(min_tape.clone()), true, true);
                violations.push(json!({
                    "index": index,
                    "run_seed": format!("{:016x}", run_seed(seed, &prop, index)),
                    "class": v.class,
                    "detail": v.detail,
                    "tape": r.tape,
                    "min_tape": min_tape,
                    "min_replays": replays,
                    "min_detail": rr.verdict.violation.as_ref().map(|v| v.detail.clone()),
                    "min_class": rr.verdict.violation.as_ref().map(|v| v.class.clone()),
                    "min_trace_hash": format!("{:016x}", rr.trace_hash),
                    "scenario": rr.verdict.sample,
                    "notes": rr.notes,
                    "events": rr.events.iter().take(400).collect::<Vec<_>>(),
                }));
            }
        }
    }
    drop(trace_out);
    drop(hashes_out);
    let _ = std::env::set_current_dir("/");
    let _ = std::fs::remove_dir_all(&sandbox);
    for n in (0..4).chain(100..104) {
        let base = if std::path::Path::new("/dev/shm").is_dir() { PathBuf::from("/dev/shm") } else { std::env::temp_dir() };
        let _ = std::fs::remove_dir_all(base.join(format!("bitasim.{}.{}", std::process::id(), n)));
        let _ = std::fs::remove_dir_all(base.join(format!("bitasim.{}", std::process::id())));
    }
    let out = json!({
        "prop": prop,
        "seed": seed,
        "start": start,
        "count": count,
        "stride": stride,
        "runs": runs,
        "stopped_early": stopped_early,
        "wall_s": t0.elapsed().as_secs_f64(),
        "steps": steps,
        "sim_time_s": (sim_ns as f64) / 1e9,
        "tasks_run": tasks,
        "tape_draws": tape_draws,
        "counters": counters,
        "nontrivial": nontrivial,
        "distinct_schedules": scheds.len(),
        "violations": violations,
        "violation_classes": seen_classes,
        "known_hits": known_hits,
        "harness_errors": harness_errors,
        "samples": samples,
    });
    println!("{}", out);
}

fn cmd_replay(args: &[String]) {
    let prop = arg(args, "--prop").expect("--prop").to_string();
    let tier = tier_of(args);
    let f = props::lookup(&prop).unwrap_or_else(|| {
        eprintln!("unknown property {}", prop);
        std::process::exit(2);
    });
    let tape = if let Some(p) = arg(args, "--tape-file") {
        let text = std::fs::read_to_string(p).expect("tape file");
        let vals: Vec<u32> = text.split(|c: char| !c.is_ascii_digit()).filter(|s| !s.is_empty()).map(|s| s.parse().expect("tape value")).collect();
        Tape::replay(vals)
    } else {
        let seed: u64 = arg(args, "--seed").unwrap_or("1").parse().expect("seed");
        let index: u64 = arg(args, "--index").unwrap_or("0").parse().expect("index");
        Tape::search(run_seed(seed, &prop, index))
    };
    let sandbox = make_sandbox();
    let r = run_one(&prop, f, tier, &sandbox, tape, true, true);
    let _ = std::env::set_current_dir("/");
    let _ = std::fs::remove_dir_all(&sandbox);
    let mut v = harness::result_json(&r);
    v["scenario"] = r.verdict.sample.clone().unwrap_or(Value::Null);
    v["notes"] = json!(r.notes);
    v["tape"] = json!(r.tape);
    if args.iter().any(|a| a == "--events") {
        v["events"] = json!(r.events);
    }
    println!("{}", v);
}

fn num_cpus_warmup() -> usize {
    use std::io::Write;
    let _ = std::io::stdout().flush();
    let _ = bita::cli::parse_opts(["bita", "info", "/nonexistent/warmup.cba"]);
    let _ = bita::cli::parse_opts(["bita", "clone", "--seed", "-", "http://warm.up/a.cba", "out"]);
    let _ = bita::cli::parse_opts(["bita", "compress", "-i", "x", "y"]);
    let _ = std::fs::metadata("/");
    let _ = std::collections::HashMap::<u8, u8>::new();
    0
}
