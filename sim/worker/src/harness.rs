//! One run = one fresh thread: syscall state + simulator installed, a property's scenario
//! executed, the verdict and the simulator's statistics returned. Everything a run decides
//! comes from its tape.

use std::cell::RefCell;
use std::collections::BTreeMap;
use std::path::PathBuf;

use serde_json::{json, Value};
use simkit::{Sim, Tape};

use crate::sys;

#[derive(Clone, Copy, Debug, PartialEq, Eq)]
pub enum Tier {
    Quick,
    Thorough,
}

#[derive(Clone, Debug)]
pub struct Violation {
    /// property + oracle clause (+ panic site): the identity used for minimisation and for
    /// matching known findings
    pub class: String,
    pub detail: String,
}

#[derive(Default)]
pub struct Verdict {
    pub violation: Option<Violation>,
    pub nontrivial: bool,
    /// small structural signature used (with the trace hash) to count distinct cases
    pub shape: u64,
    pub sample: Option<Value>,
}

pub struct Ctx {
    pub prop: String,
    pub tier: Tier,
    pub sandbox: PathBuf,
    pub want_sample: bool,
    pub verdict: Verdict,
    pub notes: Vec<String>,
}

impl Ctx {
    pub fn fail(&mut self, clause: &str, detail: String) {
        if self.verdict.violation.is_none() {
            self.verdict.violation = Some(Violation { class: format!("{}:{}", self.prop, clause), detail });
        }
    }
    pub fn failed(&self) -> bool {
        self.verdict.violation.is_some()
    }
    pub fn note(&mut self, s: String) {
        if self.want_sample {
            self.notes.push(s);
        }
    }
    pub fn path(&self, name: &str) -> PathBuf {
        self.sandbox.join(name)
    }
}

pub struct RunResult {
    pub verdict: Verdict,
    pub tape: Vec<u32>,
    pub tape_overrun: u64,
    pub trace_hash: u64,
    pub sched_hash: u64,
    pub steps: u64,
    pub sim_time_ns: u64,
    pub tasks_run: u64,
    pub counters: BTreeMap<String, u64>,
    pub events: Vec<String>,
    pub notes: Vec<String>,
    /// harness-level failure (not a property violation)
    pub harness_error: Option<String>,
}

thread_local! {
    pub static LAST_PANIC: RefCell<Option<String>> = const { RefCell::new(None) };
    pub static LOG_LINES: RefCell<Vec<String>> = const { RefCell::new(Vec::new()) };
    /// on a pool helper thread: the two cells above of the run's simulator thread
    static REMOTE_PANIC: std::cell::Cell<*const RefCell<Option<String>>> = const { std::cell::Cell::new(std::ptr::null()) };
    static REMOTE_LOG: std::cell::Cell<*const RefCell<Vec<String>>> = const { std::cell::Cell::new(std::ptr::null()) };
}

fn with_panic_cell<R>(f: impl FnOnce(&RefCell<Option<String>>) -> R) -> Option<R> {
    let r = REMOTE_PANIC.try_with(|p| p.get()).ok()?;
    if !r.is_null() {
        return Some(f(unsafe { &*r }));
    }
    LAST_PANIC.try_with(|p| f(p)).ok()
}

fn with_log_cell<R>(f: impl FnOnce(&RefCell<Vec<String>>) -> R) -> Option<R> {
    let r = REMOTE_LOG.try_with(|p| p.get()).ok()?;
    if !r.is_null() {
        return Some(f(unsafe { &*r }));
    }
    LOG_LINES.try_with(|p| f(p)).ok()
}

/// Pool closures run on helper threads (simkit::threads): they inherit the syscall state, the
/// panic record and the log buffer of the thread that started them.
pub fn install_context_hooks() {
    fn capture() -> [usize; 4] {
        let p = with_panic_cell(|c| c as *const _ as usize).unwrap_or(0);
        let l = with_log_cell(|c| c as *const _ as usize).unwrap_or(0);
        [crate::sys::context_capture(), p, l, 0]
    }
    fn install(c: [usize; 4]) {
        crate::sys::context_install(c[0]);
        let _ = REMOTE_PANIC.try_with(|p| p.set(c[1] as *const _));
        let _ = REMOTE_LOG.try_with(|p| p.set(c[2] as *const _));
    }
    simkit::threads::set_context_hooks(capture, install);
}

pub fn install_panic_hook() {
    std::panic::set_hook(Box::new(|info| {
        let loc = info
            .location()
            .map(|l| {
                let f = l.file();
                // keep paths stable: strip registry and repo prefixes
                let f = f.rsplit_once("/registry/src/").map(|(_, r)| r.split_once('/').map(|(_, r)| r).unwrap_or(r)).unwrap_or(f);
                // the repository under test may live anywhere (VERIF_REPO): keep the path from
                // its root, so that violation classes do not depend on where it is checked out
                let f = if let Some(i) = f.find("/bitar/src/") {
                    &f[i + 1..]
                } else if let Some(i) = f.rfind("/src/").filter(|_| !f.contains("/verif/sim/")) {
                    &f[i + 1..]
                } else {
                    f
                };
                format!("{}:{}", f, l.line())
            })
            .unwrap_or_else(|| "?".to_string());
        let msg = if let Some(s) = info.payload().downcast_ref::<&str>() {
            s.to_string()
        } else if let Some(s) = info.payload().downcast_ref::<String>() {
            s.clone()
        } else {
            "?".to_string()
        };
        // real tokio facilities that were not replaced by the facade (JoinSet, tokio::io::stdout,
        // tokio::net, Handle::current, ...) panic because no real runtime exists in the simulated
        // process. That says nothing about the code under test: the run is a harness error
        // (exit 2, "cannot simulate this"), never a violation.
        if msg.contains("must be called from the context of a Tokio") || msg.contains("there is no reactor running") || msg.contains("there is no timer running") || msg.contains("can call blocking only when running on the multi-threaded runtime") {
            simkit::try_with(|s| s.count("harness:real-tokio-runtime-needed"));
        }
        let _ = with_panic_cell(|p| {
            let mut p = p.borrow_mut();
            // keep the first panic of a command: later ones are consequences
            if p.is_none() {
                *p = Some(format!("{} [{}]", loc, msg.chars().take(200).collect::<String>()));
            }
        });
    }));
}

pub fn take_panic() -> Option<String> {
    LAST_PANIC.with(|p| p.borrow_mut().take())
}

struct MemLogger;
impl log::Log for MemLogger {
    fn enabled(&self, _m: &log::Metadata) -> bool {
        true
    }
    fn log(&self, record: &log::Record) {
        // format the arguments: the real logger does, and formatting can panic (F1)
        let line = format!("{}", record.args());
        let _ = with_log_cell(|l| l.borrow_mut().push(line));
    }
    fn flush(&self) {}
}
static LOGGER: MemLogger = MemLogger;

pub fn install_logger() {
    let _ = log::set_logger(&LOGGER);
    log::set_max_level(log::LevelFilter::Info);
}

pub fn take_log() -> Vec<String> {
    LOG_LINES.with(|l| std::mem::take(&mut *l.borrow_mut()))
}

pub type PropFn = fn(&mut Ctx);

/// wall-clock limit of a single run (seconds)
pub static RUN_TIMEOUT_SECS: std::sync::atomic::AtomicU64 = std::sync::atomic::AtomicU64::new(900);

fn clean_dir(dir: &std::path::Path) {
    if let Ok(rd) = std::fs::read_dir(dir) {
        for e in rd.flatten() {
            let p = e.path();
            if p.is_dir() {
                let _ = std::fs::remove_dir_all(&p);
            } else {
                let _ = std::fs::remove_file(&p);
            }
        }
    }
}

enum Msg {
    Done(RunResult),
    /// an inline pool closure is about to wait for another thread (simkit::threads)
    NeedThreads,
}

thread_local! {
    static NEED_TX: RefCell<Option<std::sync::mpsc::Sender<Msg>>> = const { RefCell::new(None) };
}

/// run threads abandoned because a closure blocked in inline mode (they stay parked)
pub static ABANDONED_RUN_THREADS: std::sync::atomic::AtomicU64 = std::sync::atomic::AtomicU64::new(0);

pub fn install_need_threads_hook() {
    fn hook() {
        let _ = NEED_TX.try_with(|t| {
            if let Some(tx) = t.borrow().as_ref() {
                let _ = tx.send(Msg::NeedThreads);
            }
        });
    }
    simkit::threads::set_need_threads_hook(hook);
}

/// Execute one run on a fresh thread. Pool closures are called in place; if one of them has to
/// wait for another thread the same tape is run again with a helper thread per closure.
pub fn run_one(prop: &str, f: PropFn, tier: Tier, sandbox: &std::path::Path, tape: Tape, record: bool, want_sample: bool) -> RunResult {
    match run_one_mode(prop, f, tier, sandbox, tape.clone(), record, want_sample, false) {
        Some(r) => r,
        None => {
            ABANDONED_RUN_THREADS.fetch_add(1, std::sync::atomic::Ordering::SeqCst);
            let mut r = run_one_mode(prop, f, tier, sandbox, tape, record, want_sample, true).expect("threaded mode never asks for threads");
            *r.counters.entry("sim:rerun-with-pool-threads".into()).or_insert(0) += 1;
            r
        }
    }
}

#[allow(clippy::too_many_arguments)]
fn run_one_mode(prop: &str, f: PropFn, tier: Tier, sandbox: &std::path::Path, tape: Tape, record: bool, want_sample: bool, threaded: bool) -> Option<RunResult> {
    clean_dir(sandbox);
    // the seed of the interposed getrandom is a function of the tape's first values
    let tape_seed = {
        let mut t = tape.clone();
        let a = t.draw(u32::MAX) as u64;
        let b = t.draw(u32::MAX) as u64;
        (a << 32) | b
    };
    let sandbox_s = sandbox.to_string_lossy().to_string();
    let sys_state = Box::new(sys::SysState::new(&sandbox_s, tape_seed));
    let prop_s = prop.to_string();
    let sandbox_p = sandbox.to_path_buf();
    let (tx, rx) = std::sync::mpsc::channel::<Msg>();
    let handle = std::thread::Builder::new()
        .name("run".into())
        .stack_size(16 << 20)
        .spawn(move || {
            let tx2 = tx.clone();
            let result = (move || {
            // first thing on the thread: from here on getrandom() is the tape's
            sys::begin(sys_state);
            NEED_TX.with(|t| *t.borrow_mut() = Some(tx2));
            let mut sim = Sim::new(tape);
            sim.threaded = threaded;
            sim.record = record;
            if record && std::env::var("BITASIM_DRAWS").is_ok() {
                sim.tape.log = Some(Vec::new());
            }
            // hash seed draw is consumed here so the tape and the getrandom stream agree
            let _ = sim.tape.draw(u32::MAX);
            let _ = sim.tape.draw(u32::MAX);
            simkit::install(sim);
            let mut ctx = Ctx {
                prop: prop_s,
                tier,
                sandbox: sandbox_p,
                want_sample,
                verdict: Verdict::default(),
                notes: Vec::new(),
            };
            let r = std::panic::catch_unwind(std::panic::AssertUnwindSafe(|| f(&mut ctx)));
            let mut harness_error = None;
            if r.is_err() {
                // a panic that escaped a scenario (outside the commands under test) is a bug in
                // the harness, not a finding
                harness_error = Some(format!("panic in harness: {}", take_panic().unwrap_or_default()));
            }
            simkit::exec::abort_cleanup();
            let sim = simkit::uninstall();
            if sim.counters.get("harness:real-tokio-runtime-needed").copied().unwrap_or(0) > 0 && harness_error.is_none() {
                harness_error = Some("the code under test called a tokio facility that needs the real runtime (not provided by the facade): this run cannot be simulated and is not judged".into());
                ctx.verdict = Verdict::default();
            }
            let sys_state = sys::end();
            let mut counters: BTreeMap<String, u64> = sim.counters.iter().map(|(k, v)| (k.to_string(), *v)).collect();
            if sys_state.short_reads > 0 {
                *counters.entry("fault:ShortRead".into()).or_insert(0) += sys_state.short_reads;
            }
            RunResult {
                verdict: std::mem::take(&mut ctx.verdict),
                tape: sim.tape.used(),
                tape_overrun: sim.tape.overrun,
                trace_hash: sim.trace_hash,
                sched_hash: sim.sched_hash,
                steps: sim.steps,
                sim_time_ns: sim.now_ns,
                tasks_run: sim.tasks_run,
                counters,
                events: {
                    let mut ev = sim.events;
                    if let Some(l) = &sim.tape.log {
                        ev.push(format!("DRAWS {:?}", l));
                    }
                    ev
                },
                notes: ctx.notes,
                harness_error,
            }
            })();
            NEED_TX.with(|t| *t.borrow_mut() = None);
            let _ = tx.send(Msg::Done(result));
        })
        .expect("spawn run thread");
    // a run normally takes milliseconds. One that does not come back (a deadlock the simulator
    // cannot unwind from, an endless loop without a facade call) is abandoned: its thread stays
    // behind, the batch goes on in fresh threads.
    let timeout = std::time::Duration::from_secs(RUN_TIMEOUT_SECS.load(std::sync::atomic::Ordering::Relaxed));
    let msg = rx.recv_timeout(timeout);
    if matches!(msg, Ok(Msg::NeedThreads)) {
        // the thread sits in a futex wait inside a closure and stays there
        drop(handle);
        return None;
    }
    Some(match msg.map_err(|_| ()).and_then(|m| match m {
        Msg::Done(r) => handle.join().map(|_| r).map_err(|_| ()),
        Msg::NeedThreads => Err(()),
    }) {
        Ok(r) => r,
        Err(_) => RunResult {
            verdict: Verdict::default(),
            tape: Vec::new(),
            tape_overrun: 0,
            trace_hash: 0,
            sched_hash: 0,
            steps: 0,
            sim_time_ns: 0,
            tasks_run: 0,
            counters: BTreeMap::new(),
            events: Vec::new(),
            notes: Vec::new(),
            harness_error: Some("run did not finish within the per-run timeout or its thread died".into()),
        },
    })
}

pub fn trim_tape(mut t: Vec<u32>) -> Vec<u32> {
    while t.last() == Some(&0) {
        t.pop();
    }
    t
}

/// Shrink a failing tape while the same violation class persists.
pub fn minimise(
    prop: &str,
    f: PropFn,
    tier: Tier,
    sandbox: &std::path::Path,
    tape: Vec<u32>,
    class: &str,
    max_replays: usize,
    max_secs: f64,
    replay_timeout_secs: u64,
) -> (Vec<u32>, usize, bool) {
    let start = std::time::Instant::now();
    let mut replays = 0usize;
    let mut best = trim_tape(tape);
    // A shrunk tape is another scenario, and it can be a far more expensive one than the run
    // that failed (zeros where sizes and counts were drawn small by luck). A replay that does not
    // come back within `replay_timeout_secs` ends the minimisation with what it has: its thread
    // is abandoned and may still be using the sandbox, so nothing else is replayed there.
    let saved_timeout = RUN_TIMEOUT_SECS.swap(replay_timeout_secs, std::sync::atomic::Ordering::Relaxed);
    let aborted = std::cell::Cell::new(false);
    let mut try_tape = |cand: &Vec<u32>, replays: &mut usize| -> Option<Vec<u32>> {
        if aborted.get() || *replays >= max_replays || start.elapsed().as_secs_f64() > max_secs {
            return None;
        }
        *replays += 1;
        let r = run_one(prop, f, tier, sandbox, Tape::replay(cand.clone()), false, false);
        if r.harness_error.is_some() {
            aborted.set(true);
            return None;
        }
        match &r.verdict.violation {
            Some(v) if v.class == class => Some(trim_tape(r.tape)),
            _ => None,
        }
    };
    // 1. truncation (missing values read as 0)
    let mut lo = 0usize;
    let mut hi = best.len();
    while lo < hi && replays < max_replays && !aborted.get() {
        let mid = (lo + hi) / 2;
        let cand: Vec<u32> = best[..mid].to_vec();
        if let Some(t) = try_tape(&cand, &mut replays) {
            best = t;
            hi = best.len().min(mid);
        } else {
            lo = mid + 1;
        }
    }
    // 2. zero / delete blocks, 3. lower single values; repeat until no progress
    let mut progress = true;
    while progress && replays < max_replays && start.elapsed().as_secs_f64() <= max_secs && !aborted.get() {
        progress = false;
        let mut size = (best.len() / 2).max(1);
        loop {
            let mut i = 2usize.min(best.len()); // the first two values are the hash seed: keep
            while i < best.len() {
                let end = (i + size).min(best.len());
                // delete
                let mut cand = best.clone();
                cand.drain(i..end);
                if let Some(t) = try_tape(&cand, &mut replays) {
                    if t.len() < best.len() || t < best {
                        best = t;
                        progress = true;
                        continue;
                    }
                }
                // zero
                if best[i..end].iter().any(|&v| v != 0) {
                    let mut cand = best.clone();
                    for v in &mut cand[i..end] {
                        *v = 0;
                    }
                    if let Some(t) = try_tape(&cand, &mut replays) {
                        best = t;
                        progress = true;
                    }
                }
                i += size;
            }
            if size == 1 {
                break;
            }
            size /= 2;
        }
        let mut i = 0;
        while i < best.len() && replays < max_replays {
            let v = best[i];
            if v > 0 {
                for nv in [v / 2, v - 1] {
                    if nv < best[i] {
                        let mut cand = best.clone();
                        cand[i] = nv;
                        if let Some(t) = try_tape(&cand, &mut replays) {
                            best = t;
                            progress = true;
                            break;
                        }
                    }
                }
            }
            i += 1;
        }
    }
    drop(try_tape);
    RUN_TIMEOUT_SECS.store(saved_timeout, std::sync::atomic::Ordering::Relaxed);
    (best, replays, aborted.get())
}

pub fn result_json(r: &RunResult) -> Value {
    json!({
        "violation": r.verdict.violation.as_ref().map(|v| json!({"class": v.class, "detail": v.detail})),
        "trace_hash": format!("{:016x}", r.trace_hash),
        "sched_hash": format!("{:016x}", r.sched_hash),
        "steps": r.steps,
        "sim_time_ns": r.sim_time_ns,
        "tape_len": r.tape.len(),
        "counters": r.counters,
        "harness_error": r.harness_error,
    })
}
