//! C08 — archive readers deliver exactly the requested bytes despite fragmentation/faults.
//! Local: `IoReader<SimFile>` with short reads of any size, Pending at any poll, early EOF.
//! HTTP: `HttpReader` against a server that is correct when it answers, with a failure
//! script (refused connection, body cut after c bytes, cut exactly at the end, early EOF,
//! stall + timeout), retry budgets 0..3, retry delays 0..30 s of virtual time.

use std::sync::Arc;
use std::time::Duration;

use bitar::archive_reader::{ArchiveReader, HttpReader, IoReader};
use bitar::ChunkOffset;
use futures_util::StreamExt;
use serde_json::json;
use simkit::exec::End;

use crate::cli::run_async;
use crate::gen;
use crate::harness::{Ctx, Tier};
use crate::net::{self, NetFault, Server};
use crate::scen::URL;
use crate::simio::SimFile;

/// ranges over a content of `n` bytes: adjacent runs, gaps, unordered, repeated
fn gen_ranges(n: usize, big: bool) -> Vec<(u64, usize)> {
    simkit::with(|s| {
        let t = &mut s.tape;
        let k = 1 + t.draw(10) as usize;
        let mut out: Vec<(u64, usize)> = Vec::new();
        // (one list in six starts at the very first byte)
        let mut cursor = if t.chance(1, 6) { 0 } else { t.draw((n / 4).max(1) as u32) as usize };
        for _ in 0..k {
            let max_size = if big && t.chance(1, 3) { 3 << 20 } else { *t.pick(&[16usize, 1, 2, 64, 300, 5000, 70000]) };
            let size = 1 + t.draw(max_size as u32) as usize;
            match t.weighted(&[5, 3, 1, 1]) {
                0 => {}                                                  // adjacent to the previous one
                1 => cursor += 1 + t.draw(200) as usize,                 // gap
                2 => cursor = t.draw(n.max(1) as u32) as usize,          // anywhere (unordered)
                _ => {
                    if let Some(&(o, _)) = out.last() {
                        cursor = o as usize;                             // repeat / overlap the previous one
                    }
                }
            }
            if cursor >= n {
                cursor = t.draw(n.max(1) as u32) as usize;
            }
            let size = size.min(n - cursor);
            if size == 0 {
                continue;
            }
            out.push((cursor as u64, size));
            cursor += size;
        }
        out
    })
}

/// maximal runs of adjacent ranges: (first offset, total size, number of ranges)
pub fn adjacent_runs(ranges: &[(u64, usize)]) -> Vec<(u64, u64, usize)> {
    let mut out: Vec<(u64, u64, usize)> = Vec::new();
    for &(o, s) in ranges {
        if let Some(last) = out.last_mut() {
            if last.0 + last.1 == o {
                last.1 += s as u64;
                last.2 += 1;
                continue;
            }
        }
        out.push((o, s as u64, 1));
    }
    out
}

#[derive(Debug)]
enum Item {
    Data(Vec<u8>),
    Err(String),
}

/// The readers inside a whole clone: `bita clone` (or the library flow) over HTTP against a
/// server with transient failures that stay within `--http-retry-count` per request. Faults
/// within the budget must be invisible in the result -- success, output == source, every write
/// one source chunk at its offset and none twice (a chunk delivered before the cut is not
/// delivered again after the resume) -- and visible in the request log exactly as the
/// property says: each run of adjacent missing chunks is asked for once, every re-request
/// starts at the first byte the server has not delivered yet and ends at the run's end, and
/// `--http-retry-delay` of virtual time passes before it.
fn run_e2e(ctx: &mut Ctx) {
    use crate::props::clonefam::{self, ExecExtra, Which};
    let Some(mut f) = clonefam::generate(ctx, Which::C06) else { return };
    f.http = true;
    f.verify_output = false;
    let retries = 1 + gen::draw(3);
    let retry_delay = *gen::t(|t| t.pick(&[0u64, 1, 1, 10, 3600]));
    let n_desc = f.ra.dict.descriptors.len();
    let script_len = (16 + 4 * n_desc).min(4000);
    let rate = *gen::t(|t| t.pick(&[2u32, 3, 5]));
    let mut script: Vec<Option<NetFault>> = Vec::with_capacity(script_len);
    let mut planned = 0usize;
    while script.len() < script_len {
        if gen::chance(1, rate) {
            let burst = 1 + gen::draw(retries) as usize;
            for _ in 0..burst {
                let fault = match gen::t(|t| t.weighted(&[2, 3, 2, 1])) {
                    0 => NetFault::Refuse,
                    1 => NetFault::CutAfter(gen::draw(9) as usize),
                    2 => NetFault::CutAfter(gen::draw(5000) as usize),
                    _ => NetFault::CutAfter(gen::draw(200_000) as usize),
                };
                script.push(Some(fault));
                planned += 1;
            }
        }
        script.push(None);
    }
    let extra = ExecExtra { net_script: script, retries, retry_delay, ..Default::default() };
    let ob = clonefam::execute_with(&f, None, &extra);
    let desc = json!({"mode": "clone over a flaky network", "http_retry_count": retries, "http_retry_delay_s": retry_delay, "faults_planned": planned, "scenario": f.desc});
    if ctx.want_sample {
        ctx.verdict.sample = Some(desc.clone());
    }
    let outcome = ob.outcome.clone().unwrap();
    if !outcome.is_success() {
        ctx.fail(&format!("e2e-clone-outcome:{}", outcome.class()), format!("every request met at most {} consecutive failures, --http-retry-count is {}, yet the clone ended with {}; {}", retries, retries, outcome.short(), desc));
        return;
    }
    let before = ctx.failed();
    if !clonefam::check_output(ctx, &f, &ob) {
        if !before && ctx.failed() {
            if let Some(v) = ctx.verdict.violation.as_mut() {
                v.class = format!("e2e-{}", v.class);
            }
        }
        return;
    }
    clonefam::check_writes(ctx, &f, &ob);
    if ctx.failed() {
        if let Some(v) = ctx.verdict.violation.as_mut() {
            v.class = format!("e2e-{}", v.class);
        }
        return;
    }
    let ex = clonefam::expect(&f);
    if ex.collision || clonefam::truncated_twins(&f.ra) {
        simkit::count("hash-collision-exempt");
        return;
    }
    // expected runs (first byte, last byte), in archive order
    let mut runs: Vec<(u64, u64)> = Vec::new();
    for (i, d) in f.ra.dict.descriptors.iter().enumerate() {
        if !ex.fetch.contains(&i) || d.archive_size == 0 {
            continue;
        }
        let start = f.ra.chunk_data_offset + d.archive_offset;
        let end = start + d.archive_size as u64 - 1;
        match runs.last_mut() {
            Some(last) if last.1 + 1 == start => last.1 = end,
            _ => runs.push((start, end)),
        }
    }
    let data: Vec<&crate::net::LoggedRequest> = ob.http_log.iter().filter(|l| l.parsed.map(|(_, b)| b >= f.ra.header_len as u64).unwrap_or(true)).collect();
    let mut k = 0usize;
    let mut failures_seen = 0usize;
    for &(start, end) in &runs {
        let mut cur = start;
        let mut failed_at: Option<u64> = None;
        loop {
            let Some(l) = data.get(k) else {
                ctx.fail("e2e-request-sequence", format!("the request log ends before the run {}-{} was asked for from byte {} ({} chunk-data requests); {}", start, end, cur, data.len(), desc));
                return;
            };
            k += 1;
            if l.parsed != Some((cur, end)) {
                ctx.fail(
                    "e2e-request-sequence",
                    format!("chunk-data request {} is {:?}; expected bytes={}-{} (run {}-{}, {} bytes of it delivered so far): every run is asked for once and a re-request resumes at the first byte not yet received; {}", k - 1, l.range, cur, end, start, end, cur - start, desc),
                );
                return;
            }
            if let Some(t) = failed_at {
                if l.time_ns < t + retry_delay * 1_000_000_000 {
                    ctx.fail("e2e-retry-delay", format!("the re-request {:?} came {} ns after the failed request, --http-retry-delay is {} s; {}", l.range, l.time_ns - t, retry_delay, desc));
                    return;
                }
            }
            let remaining = end - cur + 1;
            let got = match &l.fault {
                None => remaining,
                Some(NetFault::CutAfter(c)) => (*c as u64).min(remaining),
                Some(_) => 0,
            };
            if got == remaining {
                break;
            }
            failures_seen += 1;
            simkit::count("fault:E2eTransferFailureResumed");
            cur += got;
            failed_at = Some(l.time_ns);
        }
    }
    if k != data.len() {
        ctx.fail("e2e-request-sequence", format!("{} chunk-data requests beyond the {} the runs and their resumptions account for (first: {:?}); {}", data.len() - k, k, data[k].range, desc));
        return;
    }
    if failures_seen > 0 {
        simkit::count("probe:e2e-clone-resumed-a-run");
    }
    simkit::count("e2e-clones-over-a-flaky-network");
    ctx.verdict.nontrivial = failures_seen > 0;
    ctx.verdict.shape = (runs.len() as u64) ^ ((failures_seen as u64) << 16) ^ ((f.level2 as u64) << 40) ^ (1 << 41);
}

pub fn run(ctx: &mut Ctx) {
    // one run in 50: the readers inside a whole clone over a flaky network
    if gen::chance(1, 50) {
        run_e2e(ctx);
        return;
    }
    let big = gen::chance(1, if ctx.tier == crate::harness::Tier::Thorough { 25 } else { 400 });
    let n = if big { (3 << 20) + gen::draw(1 << 20) as usize } else { 1 + gen::draw(100_000) as usize };
    let mut content = vec![0u8; n];
    simkit::prng::Rng::new(gen::t(|t| t.seed64())).fill(&mut content);
    let content = Arc::new(content);
    let ranges = gen_ranges(n, big);
    if ranges.is_empty() {
        return;
    }
    let http = gen::chance(1, 2);
    let single = gen::chance(1, 6);
    crate::scen::draw_schedule();
    if http {
        run_http(ctx, content, ranges, single);
    } else {
        run_local(ctx, content, ranges, single);
    }
}

fn check_items(ctx: &mut Ctx, items: &[Item], content: &[u8], ranges: &[(u64, usize)], expect_ok_upto: usize, must_error: bool, desc: &serde_json::Value) -> bool {
    // items: a prefix of the expected data items, optionally one error, then nothing
    let mut i = 0;
    for it in items {
        match it {
            Item::Data(d) => {
                if i >= ranges.len() {
                    ctx.fail("extra-item", format!("the stream yielded more items than ranges requested; {}", desc));
                    return false;
                }
                let (o, s) = ranges[i];
                let want = &content[o as usize..o as usize + s];
                if d.len() != s {
                    ctx.fail("short-or-long-item", format!("item #{} has {} bytes, the range {}+{} has {}; {}", i, d.len(), o, s, s, desc));
                    return false;
                }
                if d[..] != want[..] {
                    // shifted? duplicated?
                    let shifted = content.windows(s.min(64)).position(|w| w == &d[..s.min(64)]);
                    ctx.fail("wrong-bytes", format!("item #{} does not hold the bytes of range {}+{} (first difference at {:?}; its first bytes are found at content offset {:?}); {}", i, o, s, gen::first_diff(d, want), shifted, desc));
                    return false;
                }
                i += 1;
            }
            Item::Err(e) => {
                if !std::ptr::eq(it, items.last().unwrap()) {
                    ctx.fail("items-after-error", format!("the stream continued after an error ({}); {}", e, desc));
                    return false;
                }
            }
        }
    }
    let errored = matches!(items.last(), Some(Item::Err(_)));
    if i < expect_ok_upto {
        ctx.fail(
            if errored { "error-within-retry-budget" } else { "stream-ended-early" },
            format!("only {} of the {} ranges that must complete were delivered (last item: {:?}); {}", i, expect_ok_upto, items.last().map(|x| match x { Item::Err(e) => e.clone(), Item::Data(d) => format!("{} bytes", d.len()) }), desc),
        );
        return false;
    }
    if must_error && !errored {
        ctx.fail("missing-error", format!("retries were exhausted / the body ended early, yet no error was returned ({} items); {}", items.len(), desc));
        return false;
    }
    if !must_error && (errored || i != ranges.len()) {
        ctx.fail("unexpected-error", format!("nothing justified an error but the stream delivered {} of {} items and {:?}; {}", i, ranges.len(), items.last(), desc));
        return false;
    }
    true
}

fn run_local(ctx: &mut Ctx, content: Arc<Vec<u8>>, ranges: Vec<(u64, usize)>, single: bool) {
    let file = SimFile::drawn(content.to_vec());
    // early EOF: the file is shorter than some range needs
    let eof_at = if gen::chance(1, 5) { Some(gen::draw(content.len() as u32 + 1) as u64) } else { None };
    file.with(|g| g.eof_at = eof_at);
    let desc = json!({"reader": "local", "content_len": content.len(), "ranges": ranges, "eof_at": eof_at, "single_read_at": single});
    if ctx.want_sample {
        ctx.verdict.sample = Some(desc.clone());
    }
    let first_short = ranges.iter().position(|&(o, s)| eof_at.map(|e| o + s as u64 > e).unwrap_or(false));
    // one read call fails with Interrupted (or another transient kind), in the middle of a range
    // if the drawn call falls there: a reader may give up with an error or carry on exactly
    let read_fault = if eof_at.is_none() && gen::chance(1, 6) {
        let kind = *gen::t(|t| t.pick(&[std::io::ErrorKind::Interrupted, std::io::ErrorKind::Interrupted, std::io::ErrorKind::WouldBlock, std::io::ErrorKind::Other]));
        let k = gen::draw(40) as u64;
        // (a quarter: not a read but a seek fails, when it is started or when it completes)
        if gen::chance(1, 4) {
            let k = gen::draw(12) as u64;
            let at_complete = gen::chance(1, 2);
            file.with(|g| g.seek_fault = Some((k, if kind == std::io::ErrorKind::WouldBlock { std::io::ErrorKind::Other } else { kind }, at_complete)));
        } else {
            file.with(|g| g.read_fault = Some((k, kind)));
        }
        Some((k, kind))
    } else {
        None
    };
    let file_probe = file.clone();
    let ranges2 = ranges.clone();
    // a reader that has been used before: its position is wherever the last call left it
    let warm_up: Option<(u64, usize)> = if gen::chance(1, 3) && !content.is_empty() {
        let o = gen::draw(content.len() as u32) as u64;
        Some((o, 1 + gen::draw((content.len() as u64 - o).min(5000) as u32) as usize))
    } else {
        None
    };
    if warm_up.is_some() {
        simkit::count("probe:reader-used-before");
    }
    let r = run_async(async move {
        let mut reader = IoReader::new(file);
        if let Some((o, s)) = warm_up {
            let _ = reader.read_at(o, s).await;
        }
        let mut items = Vec::new();
        if single {
            for &(o, s) in &ranges2 {
                match reader.read_at(o, s).await {
                    Ok(b) => items.push(Item::Data(b.to_vec())),
                    Err(e) => {
                        items.push(Item::Err(e.to_string()));
                        break;
                    }
                }
            }
        } else {
            let list: Vec<ChunkOffset> = ranges2.iter().map(|&(o, s)| ChunkOffset::new(o, s)).collect();
            let mut st = reader.read_chunks(list);
            while let Some(r) = st.next().await {
                match r {
                    Ok(b) => items.push(Item::Data(b.to_vec())),
                    Err(e) => {
                        items.push(Item::Err(e.to_string()));
                        // the property: after an error the stream ends
                        let mut extra = 0;
                        while let Some(_r) = st.next().await {
                            extra += 1;
                            if extra > 3 {
                                break;
                            }
                        }
                        if extra > 0 {
                            items.push(Item::Data(Vec::new()));
                        }
                        break;
                    }
                }
            }
        }
        items
    });
    let items = match r {
        Ok(End::Done(items)) => items,
        Ok(e) => {
            ctx.fail(&format!("local-{}", e.kind()), format!("local reader run ended with {}; {}", e.kind(), desc));
            return;
        }
        Err(p) => {
            ctx.fail(&format!("local-panic@{}", p.split(' ').next().unwrap_or("?")), format!("local reader panicked at {}; {}", p, desc));
            return;
        }
    };
    let upto = first_short.unwrap_or(ranges.len());
    // the io reader returns raw items; after an error poll_next may be polled again by callers,
    // Archive wraps it in StreamUntilFirstError; here only the first error matters
    let items: Vec<Item> = match items.iter().position(|i| matches!(i, Item::Err(_))) {
        Some(p) => items.into_iter().take(p + 1).collect(),
        None => items,
    };
    if eof_at.is_some() {
        simkit::count("fault:EarlyEofLocal");
    }
    if read_fault.is_some() {
        // relaxed, narrowly: every delivered item is the exact bytes of its range, in order; an
        // error may end the stream if the fault fired; nothing else
        let fired = file_probe.with(|g| g.read_fault.is_none() && g.seek_fault.is_none());
        let mut i = 0usize;
        for it in &items {
            match it {
                Item::Data(d) => {
                    let ok = ranges.get(i).map(|&(o, s)| content.get(o as usize..o as usize + s).map(|w| w == &d[..]).unwrap_or(false)).unwrap_or(false);
                    if !ok {
                        ctx.fail("wrong-bytes", format!("item #{} ({} bytes) is not the bytes of its range after a read of the file failed with {:?}; {}", i, d.len(), read_fault, desc));
                        return;
                    }
                    i += 1;
                }
                Item::Err(_) => {
                    if !fired {
                        ctx.fail("unexpected-error", format!("an error although no read had failed yet; {}", desc));
                        return;
                    }
                    break;
                }
            }
        }
        if !items.iter().any(|x| matches!(x, Item::Err(_))) && i != ranges.len() {
            ctx.fail("stream-ended-early", format!("{} of {} ranges delivered and no error; {}", i, ranges.len(), desc));
            return;
        }
        ctx.verdict.nontrivial = fired;
        ctx.verdict.shape = ranges.len() as u64 ^ (3 << 21);
        return;
    }
    if check_items(ctx, &items, &content, &ranges, upto, first_short.is_some(), &desc) {
        ctx.verdict.nontrivial = ranges.len() >= 2;
        ctx.verdict.shape = ranges.len() as u64 ^ ((first_short.is_some() as u64) << 20) ^ (1 << 21);
    }
}

/// What a reader that follows `policy` does against the fault script: per run (failures,
/// fatal early EOF, the Range of every request). `resume`: a re-request starts at the first
/// byte not yet received (mandatory for chunk streams); otherwise every attempt starts over
/// (what `read_at` does today; resuming there would satisfy the property just as well).
fn simulate(runs: &[(u64, u64, usize)], script: &[Option<NetFault>], retries: u32, resume: bool) -> Vec<(u32, bool, Vec<(u64, u64)>)> {
    let mut plan: Vec<(u32, bool, Vec<(u64, u64)>)> = Vec::new();
    let mut req = 0usize;
    for &(o, total, _) in runs {
        let mut delivered = 0u64;
        let mut failures = 0u32;
        let mut reqs: Vec<(u64, u64)> = Vec::new();
        let mut early_eof = false;
        loop {
            let remaining = total - delivered;
            reqs.push((o + delivered, o + total - 1));
            let fault = script.get(req).cloned().flatten();
            req += 1;
            match fault {
                None => break,
                Some(NetFault::EarlyEof(c)) => {
                    if (c as u64) >= remaining {
                        break; // the "early" end came after the last requested byte
                    }
                    early_eof = true;
                    break;
                }
                Some(f) => {
                    let got = match f {
                        NetFault::CutAfter(c) | NetFault::Stall(c) => (c as u64).min(remaining),
                        _ => 0,
                    };
                    if got == remaining {
                        break; // everything arrived before the failure: the reader never sees it
                    }
                    if resume {
                        delivered += got;
                    }
                    failures += 1;
                    if failures > retries {
                        break;
                    }
                }
            }
        }
        let fatal = early_eof || failures > retries;
        plan.push((failures, early_eof, reqs));
        if fatal {
            break;
        }
    }
    plan
}

fn run_http(ctx: &mut Ctx, content: Arc<Vec<u8>>, ranges: Vec<(u64, usize)>, single: bool) {
    let runs: Vec<(u64, u64, usize)> = if single { ranges.iter().map(|&(o, s)| (o, s as u64, 1usize)).collect() } else { adjacent_runs(&ranges) };
    let retries = gen::draw(4);
    let delay_s = *gen::t(|t| t.pick(&[0u64, 0, 1, 30]));
    let timeout_s: Option<u64> = if gen::chance(1, 3) { Some(*gen::t(|t| t.pick(&[5u64, 60]))) } else { None };
    // the failure script: one entry per request the server will see, drawn before anything runs
    let fault_rate = *gen::t(|t| t.pick(&[0u32, 2, 2, 5, 8]));
    let max_run = runs.iter().map(|r| r.1).max().unwrap_or(1);
    let script_len = runs.len() * (retries as usize + 2) + 2;
    let script: Vec<Option<NetFault>> = (0..script_len)
        .map(|i| {
            if fault_rate == 0 || !gen::chance(fault_rate, 10) {
                return None;
            }
            // sizes relative to the run this request most likely belongs to
            let size = runs[(i / (retries as usize + 1)).min(runs.len() - 1)].1.min(max_run);
            Some(gen::t(|t| match t.weighted(&[3, 6, 2, 1, if timeout_s.is_some() { 2 } else { 0 }]) {
                0 => NetFault::Refuse,
                1 => NetFault::CutAfter(match t.weighted(&[4, 1, 1, 1]) {
                    0 => t.draw(size as u32 + 1) as usize,
                    1 => 0,
                    2 => size as usize,
                    _ => (size as usize).saturating_sub(1),
                }),
                2 => NetFault::CutAfter(t.draw(size.min(8) as u32 + 1) as usize),
                3 => NetFault::EarlyEof(t.draw(size as u32) as usize),
                _ => NetFault::Stall(t.draw(size as u32 + 1) as usize),
            }))
        })
        .collect();
    let plan_resume = simulate(&runs, &script, retries, true);
    let plan_restart = simulate(&runs, &script, retries, false);

    let mut srv = Server::new(content.clone());
    srv.frag = net::draw_body_frag();
    // with a request timeout the scripted delays must stay far below it, or a timeout the plan
    // does not know about becomes one more failure; timeouts are injected as Stall faults
    let d = net::draw_delay();
    srv.max_delay_ns = if timeout_s.is_some() { d.min(1_000_000) } else { d };
    // a quarter of the chunk-stream readers have been used before: an earlier stream over a run of
    // adjacent ranges was polled for some of its items and dropped -- in the middle of a response,
    // with bytes of the following ranges already received. Nothing of it may show in the next
    // stream (the server behaves during that prelude; the failure script starts after it)
    let prelude: Option<(Vec<(u64, usize)>, usize)> = if !single && content.len() >= 8 && gen::chance(1, 4) {
        let n = 2 + gen::draw(3) as usize;
        let max_each = (content.len() / n).min(3000).max(1);
        let mut at = gen::draw((content.len() - n * max_each + 1) as u32) as u64;
        // (a third of them end exactly where the judged list begins)
        let mut list = Vec::new();
        for _ in 0..n {
            let sz = 1 + gen::draw(max_each as u32) as usize;
            list.push((at, sz));
            at += sz as u64;
        }
        if gen::chance(1, 3) {
            let end = ranges[0].0;
            let total: u64 = list.iter().map(|r| r.1 as u64).sum();
            if end >= total {
                let mut a = end - total;
                for r in list.iter_mut() {
                    r.0 = a;
                    a += r.1 as u64;
                }
            }
        }
        let take = 1 + gen::draw(n as u32 - 1) as usize;
        simkit::count("probe:http-reader-used-before-stream-dropped-mid-run");
        Some((list, take))
    } else {
        None
    };
    if prelude.is_none() {
        srv.script = script.clone();
    }
    let server = net::install(srv);
    let desc = json!({
        "reader": "http", "content_len": content.len(), "ranges": ranges, "single_read_at": single, "retries": retries, "retry_delay_s": delay_s, "timeout_s": timeout_s,
        "earlier_stream_dropped": prelude.as_ref().map(|(l, t)| json!({"ranges": l, "items_taken": t})),
        "fault_script": script.iter().map(|f| format!("{:?}", f)).collect::<Vec<_>>(),
    });
    if ctx.want_sample {
        ctx.verdict.sample = Some(desc.clone());
    }
    let ranges2 = ranges.clone();
    let t0 = simkit::now_ns();
    // a caller with its own outer retry polls the stream again after an error: what it gets then
    // (kept apart from the history the model explains: `after`, and the request log is cut where
    // the first error was returned)
    let after: Arc<std::sync::Mutex<(Vec<Item>, usize, u64)>> = Arc::new(std::sync::Mutex::new((Vec::new(), usize::MAX, 0)));
    let (after2, server2) = (after.clone(), server.clone());
    let (prelude2, script2) = (prelude.clone(), script.clone());
    let t0_cell = Arc::new(std::sync::atomic::AtomicU64::new(t0));
    let t0_cell2 = t0_cell.clone();
    let r = run_async(async move {
        let mut rb = reqwest::Client::new().get(URL.parse::<reqwest::Url>().unwrap());
        if let Some(t) = timeout_s {
            rb = rb.timeout(Duration::from_secs(t));
        }
        let mut reader = HttpReader::from_request(rb).retries(retries).retry_delay(Duration::from_secs(delay_s));
        let mut items = Vec::new();
        if let Some((list, take)) = prelude2 {
            let list: Vec<ChunkOffset> = list.iter().map(|&(o, s)| ChunkOffset::new(o, s)).collect();
            {
                let mut st = reader.read_chunks(list);
                for _ in 0..take {
                    let _ = st.next().await;
                }
            }
            let mut srv = server2.lock().unwrap();
            srv.log.clear();
            srv.script = script2;
            t0_cell2.store(simkit::now_ns(), std::sync::atomic::Ordering::SeqCst);
        }
        if single {
            for &(o, s) in &ranges2 {
                match reader.read_at(o, s).await {
                    Ok(b) => items.push(Item::Data(b.to_vec())),
                    Err(e) => {
                        items.push(Item::Err(e.to_string()));
                        break;
                    }
                }
            }
        } else {
            let list: Vec<ChunkOffset> = ranges2.iter().map(|&(o, s)| ChunkOffset::new(o, s)).collect();
            let mut st = reader.read_chunks(list);
            while let Some(r) = st.next().await {
                match r {
                    Ok(b) => items.push(Item::Data(b.to_vec())),
                    Err(e) => {
                        items.push(Item::Err(e.to_string()));
                        // (not after a failure to send: the request future has completed with that
                        // error, and polling a completed reqwest future again panics in hyper just
                        // as it does in the facade -- bitar's Archive never does, it wraps the
                        // stream in StreamUntilFirstError)
                        let dbg = format!("{:?}", e);
                        if dbg.contains("kind: Connect") || dbg.contains("kind: Timeout,") {
                            break;
                        }
                        {
                            let mut a = after2.lock().unwrap();
                            a.1 = server2.lock().unwrap().log.len();
                            a.2 = simkit::now_ns();
                        }
                        for _ in 0..3 {
                            match st.next().await {
                                Some(Ok(b)) => after2.lock().unwrap().0.push(Item::Data(b.to_vec())),
                                Some(Err(e)) => after2.lock().unwrap().0.push(Item::Err(e.to_string())),
                                None => break,
                            }
                        }
                        break;
                    }
                }
            }
        }
        items
    });
    let (after_items, log_cut, t_err) = {
        let a = after.lock().unwrap();
        (a.0.iter().map(|i| match i { Item::Data(d) => Item::Data(d.clone()), Item::Err(e) => Item::Err(e.clone()) }).collect::<Vec<_>>(), a.1, a.2)
    };
    let mut log = server.lock().unwrap().log.clone();
    if log_cut != usize::MAX {
        log.truncate(log_cut);
    }
    net::uninstall();
    let t0 = t0_cell.load(std::sync::atomic::Ordering::SeqCst);
    let elapsed = if t_err > 0 { t_err - t0 } else { simkit::now_ns() - t0 };
    // chunk streams must resume; single reads may resume or start over: whichever the observed
    // requests follow is then held to its own consequences
    let ranges_of = |plan: &Vec<(u32, bool, Vec<(u64, u64)>)>| -> Vec<String> { plan.iter().flat_map(|(_, _, reqs)| reqs.iter().map(|(a, b)| format!("bytes={}-{}", a, b))).collect() };
    let observed: Vec<String> = log.iter().map(|l| l.range.clone().unwrap_or_default()).collect();
    let plan = if single && observed != ranges_of(&plan_restart) && observed == ranges_of(&plan_resume) {
        simkit::count("single-read-resumed");
        plan_resume.clone()
    } else if single {
        plan_restart.clone()
    } else {
        plan_resume.clone()
    };
    let n_fail: u32 = plan.iter().map(|p| p.0).sum();
    let items = match r {
        Ok(End::Done(items)) => items,
        Ok(e) => {
            ctx.fail(&format!("http-{}", e.kind()), format!("http reader run ended with {} (liveness: it must finish once the script is exhausted); {}", e.kind(), desc));
            return;
        }
        Err(p) => {
            ctx.fail(&format!("http-panic@{}", p.split(' ').next().unwrap_or("?")), format!("http reader panicked at {}; {}", p, desc));
            return;
        }
    };
    // how many ranges must be delivered: all ranges of the runs before the fatal one
    let mut ok_ranges = 0usize;
    let mut fatal = false;
    for (i, (f, eof, _)) in plan.iter().enumerate() {
        if *eof || *f > retries {
            fatal = true;
            break;
        }
        ok_ranges += runs[i].2;
    }
    if !check_items(ctx, &items, &content, &ranges, ok_ranges, fatal, &desc) {
        return;
    }
    // after the error: more errors, the end of the stream, or -- for a reader that recovers --
    // the next range's exact bytes; never anything else
    {
        let mut i = items.iter().filter(|x| matches!(x, Item::Data(_))).count();
        for it in &after_items {
            if let Item::Data(d) = it {
                let ok = ranges.get(i).map(|&(o, s)| content.get(o as usize..o as usize + s).map(|w| w == &d[..]).unwrap_or(false)).unwrap_or(false);
                if !ok {
                    ctx.fail("wrong-bytes-after-error", format!("polled again after its error the stream delivered {} bytes that are not the bytes of range #{}; {}", d.len(), i, desc));
                    return;
                }
                i += 1;
            }
        }
        if !after_items.is_empty() {
            simkit::count("probe:polled-after-error");
        }
    }
    // the requests: every (re)request starts at the first byte not yet delivered and ends at the run's end
    let want: Vec<String> = plan.iter().flat_map(|(_, _, reqs)| reqs.iter().map(|(a, b)| format!("bytes={}-{}", a, b))).collect();
    let got: Vec<String> = log.iter().map(|l| l.range.clone().unwrap_or_default()).collect();
    if want != got {
        let i = want.iter().zip(got.iter()).position(|(a, b)| a != b).unwrap_or(want.len().min(got.len()));
        ctx.fail(
            "request-sequence",
            format!("request #{} was {:?}, expected {:?} (resume at the first byte not yet received, same end); all requests {:?}; {}", i, got.get(i), want.get(i), got, desc),
        );
        return;
    }
    // retry delays are honoured in virtual time
    if n_fail > 0 && delay_s > 0 {
        let min_ns = (n_fail.min(plan.iter().map(|p| p.0.min(retries)).sum()) as u64) * delay_s * 1_000_000_000;
        if elapsed < min_ns {
            ctx.fail("retry-delay", format!("{} retries with a delay of {} s finished in {} ns of virtual time; {}", n_fail, delay_s, elapsed, desc));
            return;
        }
    }
    ctx.verdict.nontrivial = n_fail > 0 || ranges.len() >= 2;
    ctx.verdict.shape = ranges.len() as u64 ^ ((n_fail as u64) << 20) ^ ((fatal as u64) << 30) ^ ((single as u64) << 31);
    if n_fail > 0 {
        simkit::count("retry-taken");
    }
    simkit::with(|s| {
        for f in script.iter().flatten() {
            s.count(match f {
                NetFault::Refuse => "fault:ConnectionRefused",
                NetFault::CutAfter(_) => "fault:BodyCut",
                NetFault::EarlyEof(_) => "fault:EarlyEof",
                NetFault::Stall(_) => "fault:StallAndTimeout",
                _ => "fault:Other",
            });
        }
    });
}
