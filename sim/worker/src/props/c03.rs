//! C03 — in-place update is exact for every prior content of the output.
//! Two families: real chunking of edited files through `--seed-output` / the library
//! (clonefam), and synthetic layouts at small scope driven straight into
//! `CloneOutput::reorder_in_place`: up to 8 chunk identities with sizes from {1,2,3,5,8},
//! source and prior output are arbitrary sequences over them (duplicates, cycles, overlaps,
//! partial presence, garbage), shorter / equal / longer than the source.

use bitar::{Chunk, ChunkIndex, CloneOutput, HashSum};
use serde_json::json;
use simkit::exec::End;

use crate::cli::run_async;
use crate::gen;
use crate::harness::Ctx;
use crate::props::clonefam;
use crate::props::preserve::{self, OutOp, Reusable};
use crate::simio::{FileOp, SimFile};
use bitar::ReorderOp;

fn content(id: usize, size: usize) -> Vec<u8> {
    // distinct per identity even for equal sizes; never collides with garbage (0xEE..)
    (0..size).map(|j| (1 + id * 29 + j * 7) as u8).collect()
}

pub fn run(ctx: &mut Ctx) {
    if gen::chance(1, 2) {
        clonefam::run_which(ctx, clonefam::Which::C03);
    } else {
        synthetic(ctx);
    }
}

pub fn synthetic(ctx: &mut Ctx) {
    const SIZES: [usize; 5] = [1, 2, 3, 5, 8];
    let (k, sizes, src_ids, prior_items, hash_len, index_garbage) = simkit::with(|s| {
        let t = &mut s.tape;
        let k = 1 + t.draw(8) as usize;
        let sizes: Vec<usize> = (0..k).map(|_| SIZES[t.draw(5) as usize]).collect();
        let n_src = t.draw(11) as usize;
        let src_ids: Vec<usize> = (0..n_src).map(|_| t.draw(k as u32) as usize).collect();
        let n_prior = t.draw(12) as usize;
        // prior items: Some(id) = a chunk of that identity, None = garbage of a drawn size
        let prior_items: Vec<(Option<usize>, usize)> = (0..n_prior)
            .map(|_| {
                if t.chance(1, 5) {
                    (None, 1 + t.draw(9) as usize)
                } else {
                    (Some(t.draw(k as u32) as usize), 0)
                }
            })
            .collect();
        let hash_len = *t.pick(&[64usize, 4, 8, 16, 33]);
        let index_garbage = t.draw(2) == 0;
        (k, sizes, src_ids, prior_items, hash_len, index_garbage)
    });
    let chunks: Vec<Vec<u8>> = (0..k).map(|i| content(i, sizes[i])).collect();
    // distinct contents can still collide when truncated to 4 bytes? blake2 of distinct short
    // strings: 8 identities, 2^-32 -- ignored
    let mut source = Vec::new();
    let mut clone_index = ChunkIndex::new_empty(hash_len);
    for &id in &src_ids {
        let v = Chunk::from(chunks[id].clone()).verify();
        clone_index.add_chunk(v.hash().clone(), chunks[id].len(), &[source.len() as u64]);
        source.extend_from_slice(&chunks[id]);
    }
    let mut prior = Vec::new();
    let mut output_index = ChunkIndex::new_empty(hash_len);
    let mut reusable = std::collections::BTreeSet::new();
    for (i, (item, gsize)) in prior_items.iter().enumerate() {
        match item {
            Some(id) => {
                let v = Chunk::from(chunks[*id].clone()).verify();
                output_index.add_chunk(v.hash().clone(), chunks[*id].len(), &[prior.len() as u64]);
                if src_ids.contains(id) {
                    reusable.insert(*id);
                }
                prior.extend_from_slice(&chunks[*id]);
            }
            None => {
                let g: Vec<u8> = (0..*gsize).map(|j| 0xE0 | ((i + j) as u8 & 0x0f)).collect();
                if index_garbage {
                    let v = Chunk::from(g.clone()).verify();
                    output_index.add_chunk(v.hash().clone(), g.len(), &[prior.len() as u64]);
                }
                prior.extend_from_slice(&g);
            }
        }
    }
    let desc = json!({
        "sizes": sizes, "source": src_ids,
        "prior": prior_items.iter().map(|(i, g)| match i { Some(i) => json!(i), None => json!(format!("garbage{}", g)) }).collect::<Vec<_>>(),
        "hash_length": hash_len,
    });
    if ctx.want_sample {
        ctx.verdict.sample = Some(json!({"synthetic_layout": desc}));
    }
    // the planner on its own (public API): the op list executed by a reference executor on a
    // byte vector, with the during-the-run clause checked at every read of a source
    {
        let mut ci = clone_index.clone();
        output_index.strip_chunks_already_in_place(&mut ci);
        let ops = output_index.reorder_ops(&ci);
        if let Some((class, text)) = planner_check(&ops, &prior, &chunks, &src_ids, &reusable, &source) {
            let full: Vec<HashSum> = chunks.iter().map(|c| Chunk::from(c.clone()).verify().hash().clone()).collect();
            let name = |h: &HashSum| full.iter().position(|f| f == h).map(|i| i.to_string()).unwrap_or_else(|| "?".into());
            let plan: Vec<String> = ops
                .iter()
                .map(|o| match o {
                    ReorderOp::Copy { hash, size, source, dest } => format!("Copy(id {} size {} from {} to {:?})", name(hash), size, source, dest),
                    ReorderOp::StoreInMem { hash, size, source } => format!("StoreInMem(id {} size {} from {})", name(hash), size, source),
                })
                .collect();
            ctx.fail(class, format!("{}; plan: {}; {}", text, plan.join(", "), desc));
            return;
        }
        simkit::count("planner-op-lists-executed");
        if ops.iter().any(|o| matches!(o, ReorderOp::StoreInMem { .. })) {
            simkit::count("probe:planner-breaks-a-cycle-in-memory");
        }
    }
    let file = SimFile::drawn(prior.clone());
    let file2 = file.clone();
    let chunks2 = chunks.clone();
    let r = run_async(async move {
        let mut out = CloneOutput::new(file2, clone_index);
        let moved = out.reorder_in_place(output_index).await.map_err(|e| format!("reorder_in_place: {}", e))?;
        // what is still missing is "fetched": feed exactly the chunks the output still asks for
        let left: Vec<HashSum> = out.chunks().keys().cloned().collect();
        let mut left_ids = Vec::new();
        for (id, c) in chunks2.iter().enumerate() {
            let v = Chunk::from(c.clone()).verify();
            if out.chunks().contains(v.hash()) {
                left_ids.push(id);
                out.feed(&v).await.map_err(|e| format!("feed: {}", e))?;
            }
        }
        Ok::<_, String>((moved, left.len(), left_ids, out.len()))
    });
    let (left_ids, remaining) = match r {
        Ok(End::Done(Ok((_moved, _n, left_ids, remaining)))) => (left_ids, remaining),
        Ok(End::Done(Err(e))) => {
            ctx.fail("inplace-error", format!("in-place update of a synthetic layout failed: {}; {}", e, desc));
            return;
        }
        Ok(e) => {
            ctx.fail(&format!("inplace-{}", e.kind()), format!("in-place update of a synthetic layout ended with {}; {}", e.kind(), desc));
            return;
        }
        Err(p) => {
            ctx.fail(&format!("inplace-panic@{}", p.split(' ').next().unwrap_or("?")), format!("in-place update of a synthetic layout panicked at {}; {}", p, desc));
            return;
        }
    };
    // the during-the-run clause on the real executor: replay the log of the simulated file
    {
        let ops: Vec<OutOp> = file
            .ops()
            .into_iter()
            .filter_map(|o| match o {
                FileOp::Read { pos, len } => Some(OutOp::Read { pos, len }),
                FileOp::Write { pos, data } => Some(OutOp::Write { pos, data }),
                _ => None,
            })
            .collect();
        let mut table = Vec::new();
        for &id in &reusable {
            let mut locs = Vec::new();
            let mut off = 0u64;
            for (item, gsize) in &prior_items {
                match item {
                    Some(i) => {
                        if *i == id {
                            locs.push(off);
                        }
                        off += chunks[*i].len() as u64;
                    }
                    None => off += *gsize as u64,
                }
            }
            let mut dests = Vec::new();
            let mut off = 0u64;
            for &i in &src_ids {
                if i == id {
                    dests.push(off);
                }
                off += chunks[i].len() as u64;
            }
            table.push(Reusable { id, content: chunks[id].clone(), locs, dests });
        }
        // identities of equal content (same size drawn twice gives different bytes, so none) --
        let (v, n) = preserve::monitor(&prior, &ops, &table, true);
        simkit::count_n("preservation-checks", n);
        if let Some(v) = v {
            ctx.fail("reusable-chunk-destroyed", format!("{}; {}", v.text, desc));
            return;
        }
    }
    let out = file.contents();
    if out.len() < source.len() || out[..source.len()] != source[..] {
        ctx.fail(
            "synthetic-output-differs",
            format!("after reorder_in_place + feeding the missing chunks the output differs from the source at byte {:?}: got {} want {}; {}", gen::first_diff(&out[..out.len().min(source.len())], &source), gen::hex(&out), gen::hex(&source), desc),
        );
        return;
    }
    if remaining != 0 {
        ctx.fail("synthetic-incomplete", format!("{} chunks still missing after everything was fed; {}", remaining, desc));
        return;
    }
    if let Some(id) = left_ids.iter().find(|id| reusable.contains(id)) {
        ctx.fail("reusable-not-used", format!("chunk identity {} is present in the prior output and needed by the source but was left to be fetched; {}", id, desc));
        return;
    }
    let writes = file.ops().iter().filter(|o| matches!(o, FileOp::Write { .. })).count();
    ctx.verdict.nontrivial = writes >= 1 && !reusable.is_empty();
    // the layout itself is the shape: distinct layouts are counted
    let mut h = 0xcbf2_9ce4_8422_2325u64;
    for b in desc.to_string().bytes() {
        h ^= b as u64;
        h = h.wrapping_mul(0x0000_0100_0000_01B3);
    }
    ctx.verdict.shape = h;
    simkit::count("synthetic-layout");
}

/// Executes a planner op list on a byte vector. Every source a `Copy` or `StoreInMem` reads must
/// still hold the chunk it names (nothing reusable is destroyed before it has been copied or
/// buffered); afterwards every destination of every reusable identity holds it.
fn planner_check(
    ops: &[ReorderOp],
    prior: &[u8],
    chunks: &[Vec<u8>],
    src_ids: &[usize],
    reusable: &std::collections::BTreeSet<usize>,
    source: &[u8],
) -> Option<(&'static str, String)> {
    let full: Vec<HashSum> = chunks.iter().map(|c| Chunk::from(c.clone()).verify().hash().clone()).collect();
    let ident = |h: &HashSum| full.iter().position(|f| f == h);
    let mut file = prior.to_vec();
    // identity -> (bytes read, None if they were the chunk / Some(complaint) if the place had
    // been overwritten by then). A read of an overwritten place is a violation only once its
    // bytes are used: the planner is free to emit a useless StoreInMem for a chunk whose copies
    // are all done (it does: a chunk that overlaps its own destination and is met again later).
    let mut mem: std::collections::HashMap<usize, (Vec<u8>, Option<String>)> = std::collections::HashMap::new();
    let read = |file: &Vec<u8>, what: &str, n: usize, hash: &HashSum, size: usize, source_off: u64| -> Result<(usize, Vec<u8>, Option<String>), (&'static str, String)> {
        let Some(id) = ident(hash) else {
            return Err(("planner-unknown-chunk", format!("op {} ({}) names a chunk that is none of the scenario's identities", n, what)));
        };
        let (a, b) = (source_off as usize, source_off as usize + size);
        if size != chunks[id].len() || b > file.len() {
            return Err(("planner-bad-extent", format!("op {} ({}) reads {} bytes at {} for identity {} of {} bytes in a file of {}", n, what, size, source_off, id, chunks[id].len(), file.len())));
        }
        let stale = if file[a..b] != chunks[id][..] {
            Some(format!("op {} ({}) reads identity {} at {} but an earlier op of the plan has overwritten it there", n, what, id, source_off))
        } else {
            None
        };
        Ok((id, file[a..b].to_vec(), stale))
    };
    for (n, op) in ops.iter().enumerate() {
        match op {
            ReorderOp::Copy { hash, size, source: so, dest } => {
                let (id, data, stale) = match ident(hash).and_then(|id| mem.remove(&id).map(|(d, s)| (id, d, s))) {
                    Some(x) => x,
                    None => match read(&file, "Copy", n, hash, *size, *so) {
                        Ok(x) => x,
                        Err(e) => return Some(e),
                    },
                };
                if let (Some(stale), false) = (&stale, dest.is_empty()) {
                    return Some(("planner-copies-destroyed-chunk", format!("{}, and op {} writes those bytes to {:?}: the chunk was destroyed before it was copied or buffered", stale, n, dest)));
                }
                for &d in dest {
                    let (a, b) = (d as usize, d as usize + data.len());
                    if b > source.len() || source[a..b] != chunks[id][..] {
                        return Some(("planner-wrong-destination", format!("op {} copies identity {} to {} where the source does not have it", n, id, d)));
                    }
                    if file.len() < b {
                        file.resize(b, 0);
                    }
                    file[a..b].copy_from_slice(&data);
                }
            }
            ReorderOp::StoreInMem { hash, size, source: so } => {
                if let Some(id) = ident(hash) {
                    if mem.contains_key(&id) {
                        continue;
                    }
                }
                match read(&file, "StoreInMem", n, hash, *size, *so) {
                    Ok((id, data, stale)) => {
                        if stale.is_some() {
                            simkit::count("planner-useless-store-of-a-finished-chunk");
                        }
                        mem.insert(id, (data, stale));
                    }
                    Err(e) => return Some(e),
                }
            }
        }
    }
    let mut off = 0usize;
    for &id in src_ids {
        let len = chunks[id].len();
        if reusable.contains(&id) && (file.len() < off + len || file[off..off + len] != chunks[id][..]) {
            return Some(("planner-incomplete", format!("after the plan's {} ops the reusable identity {} is not at its destination {}", ops.len(), id, off)));
        }
        off += len;
    }
    None
}
