//! C09 — chunking is a pure, read-independent function following the rolling-hash rule.

use std::sync::Arc;

use futures_util::StreamExt;
use serde_json::json;
use simkit::exec::End;

use crate::cli::run_async;
use crate::gen::{self, Cfg};
use crate::harness::Ctx;
use crate::refmodel::chunker::ref_chunks;
use crate::simio::SimSource;

pub fn chunk_with(cfg: &Cfg, src: SimSource) -> Result<End<Result<Vec<(u64, Vec<u8>)>, String>>, String> {
    let config = cfg.to_config();
    run_async(async move {
        let mut chunker = config.new_chunker(src);
        let mut out = Vec::new();
        while let Some(r) = chunker.next().await {
            match r {
                Ok((off, chunk)) => out.push((off, chunk.data().to_vec())),
                Err(e) => return Err(format!("{}", e)),
            }
        }
        Ok(out)
    })
}

/// A consumer that does not give up at an error: it notes it and polls again, until the stream
/// says it is over. Returns the chunks and the number of errors seen.
pub fn chunk_through_errors(cfg: &Cfg, src: SimSource, max_errors: usize) -> Result<End<(Vec<(u64, Vec<u8>)>, usize)>, String> {
    let config = cfg.to_config();
    run_async(async move {
        let mut chunker = config.new_chunker(src);
        let mut out = Vec::new();
        let mut errors = 0;
        while let Some(r) = chunker.next().await {
            match r {
                Ok((off, chunk)) => out.push((off, chunk.data().to_vec())),
                Err(_) => {
                    errors += 1;
                    if errors > max_errors {
                        break;
                    }
                }
            }
        }
        (out, errors)
    })
}

fn describe(r: &Result<End<Result<Vec<(u64, Vec<u8>)>, String>>, String>) -> String {
    match r {
        Ok(End::Done(Err(e))) => format!("error {}", e),
        Ok(e) => e.kind().to_string(),
        Err(p) => format!("panic at {}", p),
    }
}

pub fn run(ctx: &mut Ctx) {
    let big = gen::chance(1, if ctx.tier == crate::harness::Tier::Thorough { 40 } else { 150 });
    let cfg = gen::gen_config(false, big);
    let max_len = if big { 5 << 20 } else { 96 * 1024 };
    let (spec, data) = gen::gen_source(&cfg, max_len);
    let data = Arc::new(data);
    // schedule-free run: everything in one read
    let plain = chunk_with(&cfg, SimSource::plain(data.clone()));
    // drawn read schedule
    let src = SimSource::drawn(data.clone());
    let drawn = chunk_with(&cfg, src);
    if ctx.want_sample {
        ctx.verdict.sample = Some(json!({"config": cfg.json(), "source": spec.json()}));
    }
    let plain = match plain {
        Ok(End::Done(Ok(v))) => v,
        other => {
            ctx.fail("plain-outcome", format!("chunking {:?} with a single read did not finish: {:?}", cfg, describe(&other)));
            return;
        }
    };
    let drawn = match drawn {
        Ok(End::Done(Ok(v))) => v,
        other => {
            ctx.fail("sched-outcome", format!("chunking {:?} under a drawn read schedule did not finish: {:?}", cfg, describe(&other)));
            return;
        }
    };
    let shape = |v: &Vec<(u64, Vec<u8>)>| v.iter().map(|(o, c)| (*o as usize, c.len())).collect::<Vec<_>>();
    let (ps, ds) = (shape(&plain), shape(&drawn));
    // (i) schedule independence
    if ps != ds {
        let i = ps.iter().zip(ds.iter()).position(|(a, b)| a != b).unwrap_or(ps.len().min(ds.len()));
        ctx.fail("schedule-dependence", format!("chunk #{} differs: single read {:?} vs fragmented {:?} ({:?}, source {})", i, ps.get(i), ds.get(i), cfg, gen::fp(&data)));
        return;
    }
    // (ii) tiling and size bounds
    let mut off = 0usize;
    for (i, (o, c)) in drawn.iter().enumerate() {
        if *o as usize != off {
            ctx.fail("offsets", format!("chunk #{} has offset {} expected {}", i, o, off));
            return;
        }
        if data[off..(off + c.len()).min(data.len())] != c[..] {
            ctx.fail("content", format!("chunk #{} bytes differ from the input at {}", i, off));
            return;
        }
        if c.is_empty() {
            ctx.fail("empty-chunk", format!("chunk #{} is empty", i));
            return;
        }
        let last = i + 1 == drawn.len();
        if c.len() > cfg.max || (!last && cfg.algo != gen::Algo::Fixed && c.len() < cfg.min) || (!last && cfg.algo == gen::Algo::Fixed && c.len() != cfg.max) {
            ctx.fail("size-bounds", format!("chunk #{} has length {} outside [{}, {}] ({:?})", i, c.len(), cfg.min, cfg.max, cfg));
            return;
        }
        off += c.len();
    }
    if off != data.len() {
        ctx.fail("tiling", format!("chunks cover {} of {} bytes", off, data.len()));
        return;
    }
    // (i') a source with hiccups: some reads fail with a transient error (EINTR, EAGAIN, a
    // timeout) and the next read goes on where the stream was. A consumer that polls again after
    // each error item must get the same chunks, and the stream must not call itself finished
    // before the input is -- neither silently (an error taken for the end of the input) nor
    // after having reported the error
    if !data.is_empty() && gen::chance(1, 3) {
        let n = 1 + gen::draw(3) as usize;
        let kinds = [std::io::ErrorKind::Interrupted, std::io::ErrorKind::WouldBlock, std::io::ErrorKind::TimedOut, std::io::ErrorKind::Interrupted];
        let mut at: Vec<(usize, std::io::ErrorKind)> = (0..n)
            .map(|_| {
                let pos = match gen::draw(4) {
                    0 => 0,
                    1 => data.len() - gen::draw(data.len().min(2000) as u32 + 1) as usize,
                    _ => gen::draw(data.len() as u32 + 1) as usize,
                };
                (pos, *gen::t(|t| t.pick(&kinds)))
            })
            .collect();
        at.sort_by_key(|a| a.0);
        let mut src = SimSource::drawn(data.clone());
        src.fail_at = Some(at[0]);
        src.more_faults = at[1..].to_vec();
        let desc = format!("transient read errors at {:?}", at);
        match chunk_through_errors(&cfg, src, n) {
            Ok(End::Done((chunks, errors))) => {
                simkit::count("probe:chunker-polled-on-after-transient-read-errors");
                let ts = shape(&chunks);
                if ts != ps {
                    let i = ps.iter().zip(ts.iter()).position(|(a, b)| a != b).unwrap_or(ps.len().min(ts.len()));
                    let class = if errors == 0 { "read-error-swallowed" } else { "chunks-after-read-error" };
                    ctx.fail(class, format!("{}: the consumer saw {} error item(s), polled on to the end of the stream and got {} chunks where an undisturbed read gives {}; chunk #{}: {:?} vs {:?} ({:?}, source {})", desc, errors, ts.len(), ps.len(), i, ts.get(i), ps.get(i), cfg, gen::fp(&data)));
                    return;
                }
                if chunks.iter().zip(plain.iter()).any(|(a, b)| a.1 != b.1) {
                    ctx.fail("chunks-after-read-error", format!("{}: chunk bytes differ from those of an undisturbed read ({:?}, source {})", desc, cfg, gen::fp(&data)));
                    return;
                }
            }
            other => {
                let what = match &other {
                    Ok(e) => e.kind().to_string(),
                    Err(p) => format!("panic at {}", p),
                };
                ctx.fail("sched-outcome", format!("chunking {:?} with {} did not finish: {}", cfg, desc, what));
                return;
            }
        }
    }
    // (iii) the definition of where boundaries fall
    let expect = ref_chunks(&cfg, &data);
    if expect != ds {
        let i = expect.iter().zip(ds.iter()).position(|(a, b)| a != b).unwrap_or(expect.len().min(ds.len()));
        let (eo, el) = expect.get(i).copied().unwrap_or((0, 0));
        let ctxb: Vec<u8> = data[eo.saturating_sub(0)..(eo + 48).min(data.len())].to_vec();
        ctx.fail(
            &format!("boundary-rule:{:?}", cfg.algo),
            format!(
                "chunk #{}: reference (offset,len)=({},{}) vs bitar {:?}; {:?}; source {}; first bytes of the chunk {}",
                i, eo, el, ds.get(i), cfg, gen::fp(&data), gen::hex(&ctxb)
            ),
        );
        return;
    }
    ctx.verdict.nontrivial = ds.len() >= 2;
    ctx.verdict.shape = ds.len() as u64;
}
