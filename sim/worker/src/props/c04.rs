//! C04 — corrupted or tampered data never yields a successful wrong clone.
//! Fault kind: stored-byte corruption after creation (bit flips, truncation, overwrites,
//! payload swaps, trailing garbage, header tamper with recomputed checksum) and lying servers
//! (wrong bytes, error pages of the requested length, short bodies).
//! Mode A enumerates every single-bit flip and every truncation length of a small archive
//! through the library; mode B applies one drawn corruption to a scenario of the clone family
//! (CLI or library, seeds, in place, local or HTTP, --verify-header / --verify-output).

use std::sync::Arc;

use serde_json::json;

use crate::cli::Outcome;
use crate::gen;
use crate::harness::{Ctx, Tier};
use crate::net::NetFault;
use crate::props::c01::make_archive_with;
use crate::props::clonefam::{self, ExecExtra, Which};
use crate::refmodel::format::{build_header, decode_archive, encode_dict, EncodeStyle, MAGIC};
use crate::scen;
use crate::simio::SimFile;

/// Every stored chunk of an archive is damaged, and the archive has a number of chunks on the
/// edges of what an exit status can carry (255, 256, 257, 512): however the clone accounts for
/// what it found, it must not end with status 0 (S04-B: the count of damaged chunks as the exit
/// status). `bita clone` through the repository's own main(), local or HTTP.
fn mass_damage(ctx: &mut Ctx) {
    let n_chunks = *gen::t(|t| t.pick(&[256usize, 256, 255, 257, 512, 1, 7]));
    let size = *gen::t(|t| t.pick(&[8usize, 16, 33]));
    let mut source = vec![0u8; n_chunks * size];
    simkit::prng::Rng::new(gen::t(|t| t.seed64())).fill(&mut source);
    let source = Arc::new(source);
    let mut spec = scen::gen_compress_spec(false, false);
    spec.cfg = gen::Cfg { algo: gen::Algo::Fixed, window: 0, min: 0, max: size, bits: 0, avg: size };
    spec.comp = gen::Comp::None;
    spec.hash_len = *gen::t(|t| t.pick(&[64usize, 8, 16]));
    spec.buffers = gen::gen_buffers();
    spec.metadata.clear();
    scen::draw_schedule();
    let made = scen::compress_lib(&spec, source.clone(), None);
    if !made.outcome.is_success() {
        return;
    }
    let Ok(ra) = decode_archive(&made.archive) else { return };
    if ra.dict.descriptors.len() != n_chunks {
        return; // two equal random chunks: not the count this scenario is about
    }
    let mut presented = made.archive.clone();
    for (i, b) in presented[ra.header_len..].iter_mut().enumerate() {
        *b ^= 0x5a ^ (i as u8 & 1);
    }
    let http = gen::chance(1, 3);
    let seed_output = gen::chance(1, 4);
    scen::quiet(|| {
        let _ = std::fs::remove_file("out.bin");
        let _ = std::fs::remove_file("a.cba");
    });
    if seed_output {
        scen::put_file("out.bin", &vec![0x11u8; gen::draw(source.len() as u32 + 1) as usize]);
    }
    let server = if http {
        Some(scen::serve(Arc::new(presented.clone())))
    } else {
        scen::put_file("a.cba", &presented);
        None
    };
    scen::set_stdin(None);
    scen::draw_schedule();
    let opts = scen::CloneOpts { http, seed_output, buffers: gen::gen_buffers(), retries: if http { gen::draw(2) } else { 0 }, ..Default::default() };
    let r = scen::run(&scen::clone_args("a.cba", "out.bin", &opts));
    if server.is_some() {
        crate::net::uninstall();
    }
    let out = scen::get_file("out.bin").unwrap_or_default();
    let desc = json!({"mode": "mass-damage", "chunks": n_chunks, "chunk_size": size, "hash_length": spec.hash_len, "transport": if http { "http" } else { "local" }, "seed_output": seed_output, "outcome": r.outcome.short()});
    if ctx.want_sample {
        ctx.verdict.sample = Some(desc.clone());
    }
    simkit::count("fault:EveryChunkDamaged");
    match &r.outcome {
        Outcome::Success => {
            if out != **source {
                ctx.fail("wrong-output-accepted:mass-damage", format!("all {} stored chunks are damaged, the clone reported success and the output is not the source; {}", n_chunks, desc));
                return;
            }
        }
        Outcome::Error(_) | Outcome::Usage(_) => simkit::count("corruption-detected"),
        Outcome::Panic(_) => simkit::count("panic-on-corruption(C15)"),
        other => {
            ctx.fail(&format!("corrupt-outcome:{}", other.class()), format!("the clone of an archive whose chunks are all damaged ended with {}; {}", other.short(), desc));
            return;
        }
    }
    ctx.verdict.nontrivial = true;
    ctx.verdict.shape = (n_chunks as u64) << 8 ^ size as u64 ^ ((http as u64) << 40) ^ (0xd << 50);
}

pub fn run(ctx: &mut Ctx) {
    if gen::chance(1, 25) {
        return mass_damage(ctx);
    }
    if gen::chance(1, 3) {
        enumerate(ctx);
    } else {
        one_corruption(ctx);
    }
}

fn lib_clone_plain(archive: Vec<u8>) -> (Outcome, Vec<u8>) {
    let out = SimFile::new(Vec::new());
    let reader = bitar::archive_reader::IoReader::new(SimFile::new(archive));
    let r = crate::cli::run_async(scen::lib_clone(reader, out.clone(), Vec::new(), false));
    (scen::lib_outcome(&r), out.contents())
}

/// Mode A: all single-bit flips and all truncations of a small archive.
fn enumerate(ctx: &mut Ctx) {
    let Some(m) = make_archive_with(ctx, 400, false, Some(2), |s| {
        s.hash_len = s.hash_len.max(8);
        s.metadata.clear();
    }) else {
        return;
    };
    let Ok(ra) = decode_archive(&m.archive) else { return };
    let a = &m.archive;
    scen::set_schedule(100, true);
    let limit = if ctx.tier == Tier::Thorough { 4096 } else { 1400 };
    let exhaustive = a.len() <= limit;
    let desc = json!({"mode": "enumerate", "archive_len": a.len(), "header_len": ra.header_len, "exhaustive": exhaustive, "archive": m.desc});
    if ctx.want_sample {
        ctx.verdict.sample = Some(desc.clone());
    }
    let mut tried = 0u64;
    let mut detected = 0u64;
    let mut harmless = 0u64;
    let mut check = |ctx: &mut Ctx, what: String, corrupted: Vec<u8>, in_header: bool| -> bool {
        let (o, out) = lib_clone_plain(corrupted);
        tried += 1;
        match &o {
            Outcome::Success => {
                if out != *m.source {
                    ctx.fail(
                        if in_header { "header-corruption-accepted" } else { "payload-corruption-accepted" },
                        format!("{}: the clone reported success and the output differs from the source at byte {:?}; {}", what, gen::first_diff(&out, &m.source), desc),
                    );
                    return false;
                }
                if in_header {
                    ctx.fail("header-change-not-rejected", format!("{}: a change inside the header was not rejected when the archive was opened (the clone succeeded); {}", what, desc));
                    return false;
                }
                harmless += 1;
            }
            Outcome::Error(_) => detected += 1,
            Outcome::Panic(_) => {
                simkit::count("panic-on-corruption(C15)");
                detected += 1;
            }
            other => {
                ctx.fail(&format!("corrupt-outcome:{}", other.class()), format!("{}: the clone ended with {}; {}", what, other.short(), desc));
                return false;
            }
        }
        true
    };
    let positions: Vec<usize> = if exhaustive { (0..a.len() * 8).collect() } else { (0..512).map(|_| gen::draw((a.len() * 8) as u32) as usize).collect() };
    for bit in positions {
        let byte = bit / 8;
        if (9..14).contains(&byte) {
            continue; // upper bytes of the dictionary size: petabyte allocation, C15's finding
        }
        let mut c = a.clone();
        c[byte] ^= 1 << (bit % 8);
        if !check(ctx, format!("bit {} of byte {} flipped", bit % 8, byte), c, byte < ra.header_len) {
            return;
        }
    }
    let cuts: Vec<usize> = if exhaustive { (0..a.len()).collect() } else { (0..128).map(|_| gen::draw(a.len() as u32) as usize).collect() };
    for n in cuts {
        // cutting inside the last stored chunk or earlier always loses needed bytes, unless no
        // chunk data is needed at all
        let needs_data = !ra.dict.rebuild_order.is_empty();
        let c = a[..n].to_vec();
        let (o, out) = lib_clone_plain(c);
        tried += 1;
        match o {
            Outcome::Success => {
                if out != *m.source {
                    ctx.fail("truncation-accepted", format!("archive truncated to {} of {} bytes: the clone reported success with a different output; {}", n, a.len(), desc));
                    return;
                }
                if n < ra.header_len || needs_data {
                    ctx.fail("truncation-not-noticed", format!("archive truncated to {} of {} bytes (header {}), yet the clone succeeded; {}", n, a.len(), ra.header_len, desc));
                    return;
                }
                harmless += 1;
            }
            Outcome::Error(_) | Outcome::Panic(_) => detected += 1,
            other => {
                ctx.fail(&format!("corrupt-outcome:{}", other.class()), format!("archive truncated to {} bytes: the clone ended with {}; {}", n, other.short(), desc));
                return;
            }
        }
    }
    simkit::with(|s| {
        s.count_n("corruptions-tried", tried);
        s.count_n("corruptions-detected", detected);
        s.count_n("corruptions-harmless", harmless);
        s.count_n("fault:BitFlipOrTruncation", tried);
        if exhaustive {
            s.count("archives-enumerated-exhaustively");
        }
    });
    ctx.verdict.nontrivial = tried > 100;
    ctx.verdict.shape = a.len() as u64 ^ (tried << 20);
}

/// Mode B: one corruption on a full scenario.
fn one_corruption(ctx: &mut Ctx) {
    let Some(f) = clonefam::generate_with(ctx, Which::C06, |s| s.hash_len = s.hash_len.max(8)) else { return };
    let a = &f.made.archive;
    let ra = &f.ra;
    let n = a.len();
    let data_len = n - ra.header_len;
    let mut extra = ExecExtra::default();
    // retries must not turn a persistent corruption into a success either
    if f.http {
        extra.retries = gen::draw(3);
    }
    let mut presented = a.clone();
    let mut in_header = false;
    let mut header_tamper = false;
    let kind: &str = *gen::t(|t| {
        t.pick(&[
            "bit-flip", "bit-flip-header", "bit-flip-payload", "overwrite", "payload-swap", "trailing-garbage", "truncate", "header-tamper-recomputed", "magic-swap-and-header-change", "truncate-at-chunk-boundary",
            "server-wrong-bytes", "server-error-page", "server-short-body", "verify-header-wrong", "verify-header-right", "header-change-and-checksum-cut-off", "server-stall-with-timeout", "server-switches-archive", "header-tamper-recomputed",
        ])
    });
    let mut what = String::new();
    match kind {
        "bit-flip" | "bit-flip-header" | "bit-flip-payload" => {
            let mut byte = match kind {
                "bit-flip-header" => gen::draw(ra.header_len as u32) as usize,
                "bit-flip-payload" if data_len > 0 => ra.header_len + gen::draw(data_len as u32) as usize,
                _ => gen::draw(n as u32) as usize,
            };
            if (9..14).contains(&byte) {
                byte = 14;
            }
            let bit = gen::draw(8);
            presented[byte] ^= 1 << bit;
            in_header = byte < ra.header_len;
            what = format!("bit {} of byte {} flipped ({})", bit, byte, if in_header { "header" } else { "payload" });
        }
        "overwrite" => {
            let start = 14 + gen::draw((n - 14) as u32) as usize;
            let len = 1 + gen::draw(64.min(n - start) as u32) as usize;
            let mut blk = vec![0u8; len.min(n - start)];
            simkit::prng::Rng::new(gen::t(|t| t.seed64())).fill(&mut blk);
            if presented[start..start + blk.len()] == blk[..] {
                blk[0] ^= 0xff;
            }
            presented[start..start + blk.len()].copy_from_slice(&blk);
            in_header = start < ra.header_len;
            what = format!("{} bytes overwritten at {}", blk.len(), start);
        }
        "payload-swap" => {
            let ds = &ra.dict.descriptors;
            if ds.len() < 2 {
                return;
            }
            let i = gen::draw(ds.len() as u32) as usize;
            let j = gen::draw(ds.len() as u32) as usize;
            let (si, sj) = (ds[i].archive_size as usize, ds[j].archive_size as usize);
            let l = si.min(sj);
            let (oi, oj) = ((ra.chunk_data_offset + ds[i].archive_offset) as usize, (ra.chunk_data_offset + ds[j].archive_offset) as usize);
            if i == j || presented[oi..oi + l] == presented[oj..oj + l] {
                return;
            }
            for k in 0..l {
                presented.swap(oi + k, oj + k);
            }
            what = format!("stored payloads of chunks {} and {} swapped ({} bytes)", i, j, l);
        }
        "trailing-garbage" => {
            let k = 1 + gen::draw(500) as usize;
            presented.extend(std::iter::repeat(0xA5).take(k));
            what = format!("{} bytes of garbage appended", k);
        }
        "truncate" => {
            let k = gen::draw(n as u32) as usize;
            presented.truncate(k);
            in_header = k < ra.header_len;
            what = format!("truncated to {} of {} bytes", k, n);
        }
        "magic-swap-and-header-change" => {
            // someone who knows the format: the other accepted magic plus a change in the header,
            // stored checksum left as it was
            presented[..6].copy_from_slice(if &a[..6] == crate::refmodel::format::MAGIC { crate::refmodel::format::LEGACY_MAGIC } else { crate::refmodel::format::MAGIC });
            if gen::chance(3, 4) {
                let byte = 14 + gen::draw((ra.header_len - 14 - 64) as u32) as usize;
                presented[byte] ^= 1 << gen::draw(8);
                what = format!("magic replaced by the other accepted magic and bit flipped in header byte {}", byte);
            } else {
                what = "magic replaced by the other accepted magic".to_string();
            }
            in_header = true;
            if gen::chance(1, 2) && f.level2 {
                extra.verify_header = Some(gen::hex(&ra.header_checksum));
            }
        }
        "truncate-at-chunk-boundary" => {
            // exactly at the stored offset of a chunk: the next read meets end of file at once
            let ds = &ra.dict.descriptors;
            if ds.is_empty() {
                return;
            }
            let i = gen::draw(ds.len() as u32) as usize;
            let k = (ra.chunk_data_offset + ds[i].archive_offset) as usize;
            presented.truncate(k);
            what = format!("truncated to {} bytes = the stored offset of chunk {}", k, i);
        }
        "header-tamper-recomputed" => {
            // a structurally valid header with a fresh checksum: only --verify-header can tell
            let mut d = ra.dict.clone();
            match gen::draw(6) {
                0 if d.rebuild_order.len() >= 2 => {
                    let l = d.rebuild_order.len();
                    d.rebuild_order.swap(0, l - 1);
                    if d.rebuild_order == ra.dict.rebuild_order {
                        d.source_total_size += 1;
                    }
                }
                1 => d.source_checksum[0] ^= 1,
                2 => d.application_version.push('x'),
                // the pinned value planted in the one checksum field nobody verifies
                3 => d.source_checksum = ra.header_checksum.clone(),
                4 => d.source_checksum = Vec::new(),
                _ => d.source_total_size += 1,
            }
            let dict = encode_dict(&d, &EncodeStyle::default());
            let header = build_header(MAGIC, &dict, None);
            let mut p = header;
            p.extend_from_slice(&a[ra.header_len..]);
            presented = p;
            extra.verify_header = Some(gen::hex(&ra.header_checksum));
            header_tamper = true;
            what = "header re-encoded with one changed field and a recomputed checksum; --verify-header carries the original checksum".to_string();
        }
        "header-change-and-checksum-cut-off" => {
            // two things at once: a structurally valid header with one changed field, and the
            // file ends inside (mostly: exactly at the start of) the stored header checksum, so
            // that a reader which tolerates a short read there has nothing to compare with.
            // Seeds may well provide every chunk, the chunk data is not needed for a success.
            let mut d = ra.dict.clone();
            match gen::draw(4) {
                0 if d.rebuild_order.len() >= 2 => {
                    let l = d.rebuild_order.len();
                    d.rebuild_order.swap(0, l - 1);
                    if d.rebuild_order == ra.dict.rebuild_order {
                        d.application_version.push('x');
                    }
                }
                1 => d.source_checksum[0] ^= 1,
                2 => d.source_total_size += 1,
                _ => d.application_version.push('x'),
            }
            let dict = encode_dict(&d, &EncodeStyle::default());
            let mut p = build_header(MAGIC, &dict, None);
            let cut = if gen::chance(2, 3) { 64 } else { 1 + gen::draw(64) as usize };
            p.truncate(p.len() - cut);
            presented = p;
            in_header = true;
            if gen::chance(1, 2) && f.level2 {
                extra.verify_header = Some(gen::hex(&ra.header_checksum));
            }
            what = format!("header re-encoded with one changed field, file cut {} bytes before the end of the header (inside the stored header checksum)", cut);
        }
        "server-switches-archive" => {
            // --verify-header pins archive A. The server answers the first n requests from A and
            // everything after from B, a complete and valid archive of other content (A's header
            // re-encoded with the first and last chunk exchanged, fresh checksum). Success is
            // only acceptable with A's source in the output.
            if !f.http || !f.level2 || ra.dict.rebuild_order.len() < 2 {
                return;
            }
            let mut d = ra.dict.clone();
            let l = d.rebuild_order.len();
            d.rebuild_order.swap(0, l - 1);
            if d.rebuild_order == ra.dict.rebuild_order {
                return;
            }
            // keep the declared size consistent with the exchanged order (same multiset of chunks)
            let dict = encode_dict(&d, &EncodeStyle::default());
            let mut other = build_header(MAGIC, &dict, None);
            other.extend_from_slice(&a[ra.header_len..]);
            let n = *gen::t(|t| t.pick(&[2usize, 2, 2, 1, 3, 4]));
            extra.switch_archive_after = Some((n, other));
            extra.verify_header = Some(gen::hex(&ra.header_checksum));
            what = format!("server serves the pinned archive for {} requests, then another valid archive (first and last chunk exchanged)", n);
        }
        "server-stall-with-timeout" => {
            // the server goes silent in the middle of a chunk transfer; --http-timeout ends the
            // wait. Whatever the clone makes of that, it must not be a success with chunks missing
            if !f.http || !f.level2 {
                return;
            }
            let at = 2 + gen::draw(4) as usize;
            let mut script = vec![None; at];
            script.push(Some(NetFault::Stall(gen::draw(5000) as usize)));
            extra.net_script = script;
            extra.timeout = Some(1 + gen::draw(5) as u64);
            what = format!("server stalls for ever in the body of request #{}, --http-timeout {}", at, extra.timeout.unwrap());
        }
        "server-wrong-bytes" | "server-error-page" | "server-short-body" => {
            if !f.http {
                return;
            }
            let fault = match kind {
                "server-wrong-bytes" => NetFault::FlipBit(gen::draw(1 << 20) as usize),
                "server-error-page" => NetFault::ErrorPage,
                // half of the short bodies end exactly where a stored chunk ends (a cut that leaves
                // nothing half-received behind), the others after a few bytes
                _ if gen::chance(1, 2) && !ra.dict.descriptors.is_empty() => {
                    let n = 1 + gen::draw(3) as usize;
                    let ends: Vec<u64> = (0..n)
                        .map(|_| {
                            let d = &ra.dict.descriptors[gen::draw(ra.dict.descriptors.len() as u32) as usize];
                            ra.chunk_data_offset + d.archive_offset + d.archive_size as u64
                        })
                        .collect();
                    NetFault::EarlyEofAtOneOf(ends)
                }
                _ => NetFault::EarlyEof(gen::draw(64) as usize),
            };
            let at = if matches!(fault, NetFault::EarlyEofAtOneOf(_)) { 2 + gen::draw(3) as usize } else { gen::draw(6) as usize };
            let mut script = vec![None; at];
            script.push(Some(fault.clone()));
            extra.net_script = script;
            in_header = at < 2;
            what = format!("server answers request #{} with {:?}", at, fault);
        }
        "verify-header-wrong" => {
            let mut sum = ra.header_checksum.clone();
            if gen::chance(1, 3) {
                // the right checksum without its last hex digit
                let mut h = gen::hex(&sum);
                h.pop();
                extra.verify_header = Some(h);
                what = "--verify-header with the right checksum minus its last hex digit (127 digits)".to_string();
            } else {
                sum[gen::draw(64) as usize] ^= 1 << gen::draw(8);
                extra.verify_header = Some(gen::hex(&sum));
                what = "--verify-header with a checksum that differs in one bit".to_string();
            }
        }
        _ => {
            extra.verify_header = Some(gen::hex(&ra.header_checksum));
            what = "--verify-header with the right checksum (control)".to_string();
        }
    }
    if extra.verify_header.is_some() && !f.level2 {
        // the library has no --verify-header: emulate nothing, skip
        return;
    }
    let ob = clonefam::execute_with(&f, Some(&presented), &extra);
    let outcome = ob.outcome.clone().unwrap();
    let desc = json!({"mode": "scenario", "corruption": what, "kind": kind, "outcome": outcome.short(), "http_retry_count": extra.retries, "scenario": f.desc});
    if ctx.want_sample {
        ctx.verdict.sample = Some(desc.clone());
    }
    simkit::count(match kind {
        "bit-flip" | "bit-flip-header" | "bit-flip-payload" => "fault:BitFlip",
        "overwrite" => "fault:Overwrite",
        "payload-swap" => "fault:PayloadSwap",
        "trailing-garbage" => "fault:TrailingGarbage",
        "truncate" | "truncate-at-chunk-boundary" => "fault:Truncate",
        "magic-swap-and-header-change" => "fault:MagicSwapHeaderChange",
        "header-tamper-recomputed" => "fault:HeaderTamper",
        "server-wrong-bytes" | "server-error-page" | "server-short-body" => "fault:LyingServer",
        "header-change-and-checksum-cut-off" => "fault:HeaderChangeChecksumCutOff",
        "server-stall-with-timeout" => "fault:ServerStall",
        "server-switches-archive" => "fault:ServerSwitchesArchive",
        _ => "verify-header-option",
    });
    let src = &f.made.source;
    match &outcome {
        Outcome::Success => {
            let out = ob.output.clone().unwrap_or_default();
            let same = out.len() >= src.len() && out[..src.len()] == src[..] && (out.len() == src.len() || f.blockdev || !f.level2);
            if header_tamper || kind == "verify-header-wrong" {
                ctx.fail("verify-header-ignored", format!("{}: the clone proceeded although the archive's header checksum is not the one given; {}", what, desc));
                return;
            }
            if !same {
                ctx.fail(
                    &format!("wrong-output-accepted:{}", kind),
                    format!("{}: the clone reported success and the output differs from the source at byte {:?} ({} vs {}); {}", what, gen::first_diff(&out[..out.len().min(src.len())], src), gen::fp(&out), gen::fp(src), desc),
                );
                return;
            }
            if in_header && !kind.starts_with("server") && !kind.starts_with("truncate") {
                ctx.fail("header-change-not-rejected", format!("{}: a change inside the header was not rejected; {}", what, desc));
                return;
            }
            simkit::count("corruption-harmless");
        }
        Outcome::Error(_) | Outcome::Usage(_) => {
            if kind == "verify-header-right" {
                ctx.fail("verify-header-right-refused", format!("--verify-header with the archive's own checksum was refused: {}; {}", outcome.short(), desc));
                return;
            }
            simkit::count("corruption-detected");
        }
        Outcome::Panic(_) => simkit::count("panic-on-corruption(C15)"),
        other => {
            ctx.fail(&format!("corrupt-outcome:{}", other.class()), format!("{}: the clone ended with {}; {}", what, other.short(), desc));
            return;
        }
    }
    let _ = Arc::new(0);
    ctx.verdict.nontrivial = kind != "verify-header-right";
    ctx.verdict.shape = (kind.len() as u64) << 50 ^ (n as u64) ^ ((f.level2 as u64) << 40) ^ ((f.http as u64) << 41) ^ ((f.seed_output as u64) << 42);
}
