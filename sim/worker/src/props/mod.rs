use crate::harness::PropFn;

pub mod c01;
pub mod c03;
pub mod c04;
pub mod c05;
pub mod c07;
pub mod c08;
pub mod c09;
pub mod c11;
pub mod c12;
pub mod c14;
pub mod c15;
pub mod c16;
pub mod c17;
pub mod clonefam;
pub mod preserve;
pub mod xself;

pub const REGISTRY: &[(&str, PropFn)] = &[
    ("C01", c01::run),
    ("C02", clonefam::run_c02),
    ("C03", c03::run),
    ("C04", c04::run),
    ("C05", c05::run),
    ("C06", clonefam::run_c06),
    ("C07", c07::run),
    ("C08", c08::run),
    ("C09", c09::run),
    ("C11", c11::run),
    ("C12", c12::run),
    ("C13", clonefam::run_c13),
    ("C14", c14::run),
    ("C15", c15::run),
    ("C16", c16::run),
    ("C17", c17::run),
    ("XHASHORDER", xself::hashorder),
    ("XCROSS", xself::cross),
    ("XSPAWN", xself::spawn),
    ("XBLOCK", xself::block),
];

pub fn lookup(name: &str) -> Option<PropFn> {
    REGISTRY.iter().find(|(n, _)| *n == name).map(|(_, f)| *f)
}
