use crate::harness::PropFn;

pub mod c01;
pub mod c09;

pub const REGISTRY: &[(&str, PropFn)] = &[("C01", c01::run), ("C09", c09::run)];

pub fn lookup(name: &str) -> Option<PropFn> {
    REGISTRY.iter().find(|(n, _)| *n == name).map(|(_, f)| *f)
}
