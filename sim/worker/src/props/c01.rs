//! C01 — compress then clone reproduces the source byte-for-byte (and the archive records the
//! true size and checksum). Writers: CLI (file / stdin), library. Cloners: CLI (local / HTTP),
//! library (local / HTTP). Every schedule of the blocking pool and of the reads. No faults.

use std::sync::Arc;

use serde_json::json;

use crate::cli::Outcome;
use crate::gen;
use crate::harness::{Ctx, Tier};
use crate::refmodel::format::{decode_archive, ref_unpack};
use crate::scen::{self, CloneOpts};
use crate::simio::SimFile;

pub struct Made {
    pub spec: scen::CompressSpec,
    pub source: Arc<Vec<u8>>,
    pub archive: Vec<u8>,
    pub writer: &'static str,
    pub desc: serde_json::Value,
}

/// Compress a drawn source with a drawn configuration through a drawn writer. On a writer
/// outcome other than Success the violation is recorded and None returned.
pub fn make_archive(ctx: &mut Ctx, max_len: usize, big: bool, force_writer: Option<u32>) -> Option<Made> {
    make_archive_with(ctx, max_len, big, force_writer, |_| {})
}

/// like `make_archive`, with a hook to constrain the drawn options
pub fn make_archive_with(ctx: &mut Ctx, max_len: usize, big: bool, force_writer: Option<u32>, tweak: impl FnOnce(&mut scen::CompressSpec)) -> Option<Made> {
    let writer = force_writer.unwrap_or_else(|| simkit::with(|s| s.tape.weighted(&[3, 2, 3]) as u32));
    let cli = writer != 2;
    let mut spec = scen::gen_compress_spec(cli, big);
    if cli {
        spec.metadata = scen::cli_safe_metadata(&spec.metadata);
    }
    tweak(&mut spec);
    let max_len = gen::len_cap(spec.comp, &spec.cfg, max_len);
    // big chunks (>= 32 KiB on average): let the source hold several of them when compression
    // is cheap, or multi-chunk behaviour of large chunks is only seen in the rare "big" runs
    let cheap = matches!(spec.comp, gen::Comp::None | gen::Comp::Brotli(1..=3) | gen::Comp::Zstd(1..=3));
    let max_len = if cheap && spec.cfg.expected_avg() >= 32 * 1024 && gen::chance(1, 2) { max_len.max(spec.cfg.expected_avg().saturating_mul(6)).min(1 << 20) } else { max_len };
    let (mut sspec, mut data) = gen::gen_source(&spec.cfg, max_len);
    // the stored-size == source-size corner of the compression rule: fixed-size chunks crafted
    // so that their compressed form has exactly the chunk's size
    if spec.cfg.algo == gen::Algo::Fixed && spec.comp != gen::Comp::None && !spec.comp.expensive() && (16..=4096).contains(&spec.cfg.max) && gen::chance(1, 4) {
        let k = 1 + gen::draw(4) as usize;
        let mut v = Vec::new();
        let mut hits = 0;
        for _ in 0..k {
            match gen::equal_size_chunk(spec.cfg.max, spec.comp, gen::t(|t| t.seed64())) {
                Some(c) => {
                    v.extend_from_slice(&c);
                    hits += 1;
                }
                None => v.extend(std::iter::repeat(7u8).take(spec.cfg.max)),
            }
        }
        if hits > 0 {
            simkit::count("probe:stored-size-equals-source-size");
            sspec.kind = "equal-size-corner";
            sspec.len = v.len();
            data = v;
        }
    }
    // one run in 150: two or three chunks that are stored raw and are larger than anything a
    // single write to a tokio File accepts (2 MiB): fixed size just above 2 MiB, random bytes
    if !big && gen::chance(1, 150) {
        let n = (2 << 20) + 1 + gen::draw(1 << 19) as usize;
        spec.comp = *gen::t(|t| t.pick(&[gen::Comp::None, gen::Comp::None, gen::Comp::Zstd(1)]));
        let len = if gen::chance(1, 2) {
            spec.cfg = gen::Cfg::fixed(n);
            n * (1 + gen::draw(2) as usize) + gen::draw(n as u32) as usize
        } else {
            // rolling hash with an average of 1 MiB and no minimum: chunk sizes from a few bytes
            // to several MiB side by side
            let bits = 19 + gen::draw(3);
            spec.cfg = gen::Cfg { algo: if gen::chance(1, 2) { gen::Algo::RollSum } else { gen::Algo::BuzHash }, window: 32, min: 64, max: 4 << 20, bits, avg: 2 << bits };
            (3 << 20) + gen::draw(5 << 20) as usize
        };
        sspec = gen::SourceSpec { kind: "random", len, seed: gen::t(|t| t.seed64()), param: 0 };
        data = gen::expand(&sspec);
        simkit::count("probe:raw-chunks-above-2MiB");
    }
    let source = Arc::new(data);
    let (wname, outcome, archive, sched, short) = compress_with(&spec, &source, writer);
    let desc = json!({"writer": wname, "options": spec.json(), "source": sspec.json(), "schedule": sched, "short_read_pct": short});
    if ctx.want_sample {
        ctx.verdict.sample = Some(desc.clone());
    }
    if !outcome.is_success() {
        ctx.fail(&format!("compress-{}:{}", if cli { "cli" } else { "lib" }, outcome.class()), format!("{} compress of a valid scenario ended with {}; {}", wname, outcome.short(), desc));
        return None;
    }
    Some(Made { spec, source, archive, writer: wname, desc })
}

/// Compress `source` with `spec` through writer 0 (CLI, file), 1 (CLI, stdin) or 2 (library)
/// under a freshly drawn schedule.
pub fn compress_with(spec: &scen::CompressSpec, source: &Arc<Vec<u8>>, writer: u32) -> (&'static str, Outcome, Vec<u8>, serde_json::Value, u32) {
    let sched = scen::draw_schedule();
    let short = scen::draw_short_reads();
    scen::quiet(|| {
        let _ = std::fs::remove_file("a.cba");
    });
    // one CLI compression in six overwrites an existing, longer file with --force-create: the
    // archive must still end at the end of its last stored chunk
    let force = writer != 2 && gen::chance(1, 6);
    if force {
        let junk = vec![0xEEu8; source.len() * 2 + 4096 + gen::draw(5000) as usize];
        scen::put_file("a.cba", &junk);
        simkit::count("probe:compress-over-longer-file");
    }
    let (wname, outcome, archive) = match writer {
        0 => {
            scen::put_file("src.bin", source);
            scen::set_stdin(None);
            // one input in twelve is a block device: its stat size is 0, its content is what reading it yields
            let dev = !source.is_empty() && gen::chance(1, 12);
            if dev {
                crate::sys::with(|s| s.path_mut("src.bin").fake_blockdev = true);
                simkit::count("probe:compress-input-is-a-block-device");
            }
            let r = scen::run(&scen::compress_args(spec, Some("src.bin"), "a.cba", force));
            if dev {
                crate::sys::with(|s| s.path_mut("src.bin").fake_blockdev = false);
            }
            ("cli-file", r.outcome, scen::get_file("a.cba").unwrap_or_default())
        }
        1 => {
            scen::set_stdin(Some(source.to_vec()));
            let r = scen::run(&scen::compress_args(spec, None, "a.cba", force));
            scen::set_stdin(None);
            ("cli-stdin", r.outcome, scen::get_file("a.cba").unwrap_or_default())
        }
        _ => {
            // temporary_file_override is not used: create_archive opens it write-only
            // (File::create) and then reads it back, which always fails with EBADF -- a
            // bitar defect outside the listed properties (see DESIGN.md section 6, O1)
            let r = scen::compress_lib(spec, source.clone(), None);
            ("lib", r.outcome, r.archive)
        }
    };
    (wname, outcome, archive, sched, short)
}

/// Fault-injecting configuration: one read of the source fails with EIO at a drawn point.
/// Compress may then fail in whatever way it likes (today the CLI panics, the library returns
/// the error); what it must not do is report success for an archive of a prefix of the source
/// -- that archive would record a size and checksum that are not the source's.
fn source_read_fault(ctx: &mut Ctx) {
    let writer = simkit::with(|s| s.tape.weighted(&[3, 2, 3]) as u32);
    let cli = writer != 2;
    let mut spec = scen::gen_compress_spec(cli, false);
    if cli {
        spec.metadata = scen::cli_safe_metadata(&spec.metadata);
    }
    // an error that arrives while no chunk is in flight is the easiest to lose
    if gen::chance(1, 2) {
        spec.buffers = 1;
    }
    let max_len = if gen::chance(1, 4) { 3 << 20 } else { 128 * 1024 };
    let max_len = gen::len_cap(spec.comp, &spec.cfg, max_len);
    let (sspec, data) = gen::gen_source(&spec.cfg, max_len);
    if data.is_empty() {
        return;
    }
    let len = data.len();
    let source = Arc::new(data);
    // bytes delivered before the failure (stdin, library reader) / index of the failing read
    // system call (file)
    let fail_at = match gen::draw(4) {
        0 => 0,
        1 => len - 1 - gen::draw(len.min(4096) as u32) as usize,
        _ => gen::draw(len as u32) as usize,
    };
    let nth = simkit::with(|s| s.tape.weighted(&[4, 3, 2, 1])) as u64 + if gen::chance(1, 4) { gen::draw(8) as u64 } else { 0 };
    let sched = scen::draw_schedule();
    let short = scen::draw_short_reads();
    scen::quiet(|| {
        let _ = std::fs::remove_file("a.cba");
    });
    let (wname, outcome, archive, fired) = match writer {
        0 => {
            scen::put_file("src.bin", &source);
            scen::set_stdin(None);
            crate::sys::with(|s| s.add_fault("src.bin", crate::sys::Op::Read, nth, crate::sys::FaultAction::Errno(libc::EIO)));
            let r = scen::run(&scen::compress_args(&spec, Some("src.bin"), "a.cba", false));
            let fired = crate::sys::with(|s| s.fault_fired.iter().any(|(p, _)| p.ends_with("src.bin")));
            ("cli-file", r.outcome, scen::get_file("a.cba").unwrap_or_default(), fired)
        }
        1 => {
            scen::set_stdin(Some(source.to_vec()));
            simkit::with(|s| s.stdin.as_mut().unwrap().fail_at = Some(fail_at));
            let r = scen::run(&scen::compress_args(&spec, None, "a.cba", false));
            scen::set_stdin(None);
            ("cli-stdin", r.outcome, scen::get_file("a.cba").unwrap_or_default(), true)
        }
        _ => {
            // (what kind of error: a plain I/O error, or one of the kinds a wrapped stream reports
            // -- TLS without close_notify and length-checked bodies say UnexpectedEof)
            let kind = *gen::t(|t| t.pick(&[std::io::ErrorKind::Other, std::io::ErrorKind::UnexpectedEof, std::io::ErrorKind::ConnectionReset, std::io::ErrorKind::TimedOut, std::io::ErrorKind::BrokenPipe]));
            let r = scen::compress_lib_failing_with(&spec, source.clone(), None, Some(fail_at), kind);
            simkit::count("fault:SourceReadError");
            ("lib", r.outcome, r.archive, true)
        }
    };
    let desc = json!({"writer": wname, "options": spec.json(), "source": sspec.json(), "schedule": sched, "short_read_pct": short,
        "read_fault": if writer == 0 { json!({"failing_read_call": nth, "fired": fired}) } else { json!({"after_bytes": fail_at}) }});
    if ctx.want_sample {
        ctx.verdict.sample = Some(desc.clone());
    }
    if !fired {
        return;
    }
    simkit::count("probe:source-read-fault-fired");
    if outcome.is_success() {
        let recorded = decode_archive(&archive).map(|a| format!("size {} checksum {}", a.dict.source_total_size, gen::hex(&a.dict.source_checksum[..a.dict.source_checksum.len().min(8)]))).unwrap_or_else(|e| format!("undecodable: {}", e));
        ctx.fail(
            "source-read-error-ignored",
            format!("a read of the source failed with EIO, yet {} compress reported success; the archive ({} bytes) records {} for a source of {} bytes; {}", wname, archive.len(), recorded, len, desc),
        );
        return;
    }
    ctx.verdict.nontrivial = true;
    ctx.verdict.shape = (writer as u64) << 56 ^ (spec.buffers as u64) << 48 ^ (fail_at.min(nth as usize * 7919) as u64) ^ outcome.class().len() as u64;
}

/// Fault-injecting configuration: a write of `bita compress` fails (ENOSPC / EIO, nothing or a
/// prefix written) -- on its temporary chunk file or on the archive itself, at a drawn write with
/// a bias to the last one, the write whose error only a flush can still collect. Compress may
/// fail; if it reports success the archive must be complete.
fn compress_write_fault(ctx: &mut Ctx) {
    // a third: the library writer into a tokio::fs::File; its anonymous temporary chunk file is
    // seen by the seam as "<anon-temp>"
    let lib = gen::chance(1, 3);
    let stdin = !lib && gen::chance(1, 3);
    let mut spec = scen::gen_compress_spec(true, false);
    spec.metadata = scen::cli_safe_metadata(&spec.metadata);
    let max_len = gen::len_cap(spec.comp, &spec.cfg, if gen::chance(1, 6) { 3 << 20 } else { 96 * 1024 });
    let (sspec, data) = gen::gen_source(&spec.cfg, max_len);
    if data.is_empty() {
        return;
    }
    let source = Arc::new(data);
    let run = |fault: Option<(&str, crate::sys::Op, u64, crate::sys::FaultAction)>| {
        scen::quiet(|| {
            let _ = std::fs::remove_file("a.cba");
        });
        if stdin {
            scen::set_stdin(Some(source.to_vec()));
        } else {
            scen::put_file("src.bin", &source);
            scen::set_stdin(None);
        }
        crate::sys::with(|s| {
            s.log.clear();
            if let Some((path, op, nth, action)) = &fault {
                // (the seam counts the writes / opens of a path over the whole run)
                let base = if *op == crate::sys::Op::Open { s.path_mut(path).opens } else { s.path_mut(path).writes };
                s.add_fault(path, *op, base + *nth, action.clone());
            }
        });
        if lib {
            let r = scen::compress_lib_to_file(&spec, source.clone());
            scen::put_file("a.cba", &r.archive);
            return r.outcome;
        }
        let r = scen::run(&scen::compress_args(&spec, if stdin { None } else { Some("src.bin") }, "a.cba", false));
        scen::set_stdin(None);
        r.outcome
    };
    // 1. fault-free: which files does it write, and how often
    let sched1 = scen::draw_schedule();
    let r1 = run(None);
    if !r1.is_success() {
        return;
    }
    // one CLI run in five: not a write but an *open* of one of the files it writes fails (the
    // creation of the temporary chunk file, its re-opening for the copy into the archive, the
    // archive itself): EMFILE, ENFILE, EINTR, EIO, EACCES
    let open_fault = !lib && gen::chance(1, 5);
    let fault_op = if open_fault { crate::sys::Op::Open } else { crate::sys::Op::Write };
    let writes: std::collections::BTreeMap<String, u64> = crate::sys::with(|s| {
        let mut m = std::collections::BTreeMap::new();
        for e in s.log.iter().filter(|e| if open_fault { e.op == crate::sys::Op::Open && e.ret >= 0 } else { e.op == crate::sys::Op::Write && e.ret > 0 }) {
            let p = s.path_name(e.path).to_string();
            if !p.starts_with('/') && p != "src.bin" {
                *m.entry(p).or_insert(0) += 1;
            }
        }
        m
    });
    if writes.is_empty() {
        return;
    }
    let targets: Vec<(&String, &u64)> = writes.iter().collect();
    let (target, &count) = targets[gen::draw(targets.len() as u32) as usize];
    let nth = match gen::draw(4) {
        0 | 1 => count - 1,
        2 => 0,
        _ => gen::draw(count as u32) as u64,
    };
    let errno = *gen::t(|t| t.pick(&[libc::ENOSPC, libc::EIO, libc::EDQUOT]));
    let action = if open_fault {
        crate::sys::FaultAction::Errno(*gen::t(|t| t.pick(&[libc::EMFILE, libc::ENFILE, libc::EINTR, libc::EIO, libc::EACCES])))
    } else if gen::chance(1, 3) {
        crate::sys::FaultAction::PartialThenErrno(1 + gen::draw(4096) as usize, errno)
    } else {
        crate::sys::FaultAction::Errno(errno)
    };
    // 2. the same compression with the fault
    let sched2 = scen::draw_schedule();
    let r2 = run(Some((target.as_str(), fault_op, nth, action.clone())));
    let fired = crate::sys::with(|s| !s.fault_fired.is_empty());
    let archive = scen::get_file("a.cba").unwrap_or_default();
    let desc = json!({"writer": if lib { "lib-into-file" } else if stdin { "cli-stdin" } else { "cli-file" }, "options": spec.json(), "source": sspec.json(), "schedules": [sched1, sched2],
        "write_fault": {"file": target, if open_fault { "open" } else { "write" }: nth, "of": count, "action": format!("{:?}", action), "fired": fired}, "outcome": r2.short()});
    if ctx.want_sample {
        ctx.verdict.sample = Some(desc.clone());
    }
    if !fired {
        return;
    }
    simkit::count(if open_fault { "probe:compress-open-fault-fired" } else { "probe:compress-write-fault-fired" });
    if target.starts_with('<') {
        simkit::count(if r2.is_success() { "probe:write-fault-on-anonymous-temp-file:success" } else { "probe:write-fault-on-anonymous-temp-file:error" });
    }
    if matches!(r2, Outcome::StepBudget | Outcome::Deadlock) {
        ctx.fail(&format!("compress-cli:{}", r2.class()), format!("compress with a failing write ended with {}; {}", r2.short(), desc));
        return;
    }
    if r2.is_success() {
        let complete = decode_archive(&archive).ok().and_then(|ra| ref_unpack(&ra, &archive).ok()).map(|u| u == **source).unwrap_or(false);
        if !complete {
            ctx.fail(
                "write-error-ignored",
                format!("{} #{} of {} on {:?} failed ({:?}), yet compress reported success and the archive ({} bytes) is not a complete archive of the source; {}", if open_fault { "open" } else { "write" }, nth, count, target, action, archive.len(), desc),
            );
            return;
        }
    }
    ctx.verdict.nontrivial = true;
    ctx.verdict.shape = (count << 20) ^ (nth << 8) ^ (target.len() as u64) ^ ((stdin as u64) << 60) ^ ((lib as u64) << 59) ^ ((r2.is_success() as u64) << 61);
}

pub fn run(ctx: &mut Ctx) {
    if gen::chance(1, 12) {
        return source_read_fault(ctx);
    }
    if gen::chance(1, 14) {
        return compress_write_fault(ctx);
    }
    let big = gen::chance(1, if ctx.tier == crate::harness::Tier::Thorough { 30 } else { 400 });
    let max_len = if big { 5 << 20 } else { 128 * 1024 };
    let Some(m) = make_archive(ctx, max_len, big, None) else { return };
    let source = &m.source;
    // the archive records the true size and checksum (judged by the independent decoder)
    let ra = match decode_archive(&m.archive) {
        Ok(a) => a,
        Err(e) => {
            ctx.fail("archive-undecodable", format!("reference decoder rejects the archive written by {}: {}; {}", m.writer, e, m.desc));
            return;
        }
    };
    if ra.dict.source_total_size != source.len() as u64 {
        ctx.fail("recorded-size", format!("archive records source size {} but the source has {} bytes; {}", ra.dict.source_total_size, source.len(), m.desc));
        return;
    }
    if ra.dict.source_checksum != gen::blake2b512(source) {
        ctx.fail("recorded-checksum", format!("archive records a source checksum that is not Blake2b-512(source); {}", m.desc));
        return;
    }
    match ref_unpack(&ra, &m.archive) {
        Ok(data) if data == **source => {}
        Ok(data) => {
            ctx.fail("archive-content", format!("reference unpack of the archive differs from the source at byte {:?} ({} vs {}); {}", gen::first_diff(&data, source), gen::fp(&data), gen::fp(source), m.desc));
            return;
        }
        Err(e) => {
            ctx.fail("archive-content", format!("reference unpack of the archive fails: {} (archive {} bytes, header {}); {}", e, m.archive.len(), ra.header_len, m.desc));
            return;
        }
    }
    // clone it back
    let cloner = simkit::with(|s| s.tape.weighted(&[3, 3, 2, 2]));
    let sched = scen::draw_schedule();
    scen::draw_short_reads();
    let opts = CloneOpts { buffers: gen::gen_buffers(), verbose: simkit::with(|s| s.tape.weighted(&[6, 2, 1])) as u32, verify_output: gen::chance(1, 4), ..Default::default() };
    let (cname, outcome, out): (&str, Outcome, Vec<u8>) = match cloner {
        0 => {
            scen::put_file("a.cba", &m.archive);
            let r = scen::run(&scen::clone_args("a.cba", "out.bin", &opts));
            ("cli-local", r.outcome, scen::get_file("out.bin").unwrap_or_default())
        }
        1 => {
            let _srv = scen::serve(Arc::new(m.archive.clone()));
            let o = CloneOpts { http: true, ..opts.clone() };
            let r = scen::run(&scen::clone_args("", "out.bin", &o));
            crate::net::uninstall();
            ("cli-http", r.outcome, scen::get_file("out.bin").unwrap_or_default())
        }
        2 => {
            let f = SimFile::drawn(Vec::new());
            let r = scen::run_lib_clone_local(m.archive.clone(), f.clone(), Vec::new(), false);
            ("lib-local", scen::lib_outcome(&r), f.contents())
        }
        _ => {
            let _srv = scen::serve(Arc::new(m.archive.clone()));
            let f = SimFile::drawn(Vec::new());
            let r = scen::run_lib_clone_http(f.clone(), Vec::new(), false, 0, 0);
            crate::net::uninstall();
            ("lib-http", scen::lib_outcome(&r), f.contents())
        }
    };
    if ctx.want_sample {
        ctx.verdict.sample = Some(json!({"compress": m.desc, "clone": {"cloner": cname, "schedule": sched, "buffers": opts.buffers, "verify_output": opts.verify_output}}));
    }
    if !outcome.is_success() {
        ctx.fail(&format!("clone-{}:{}", &cname[..3], outcome.class()), format!("{} clone of an archive written by {} ended with {}; {}", cname, m.writer, outcome.short(), m.desc));
        return;
    }
    if out != **source {
        if m.spec.hash_len < 8 && crate::props::clonefam::truncated_twins(&ra) {
            // two different chunks of the source share their truncated hash: the user's choice
            // of hash length, no reader can reconstruct this (DESIGN.md, C02 note)
            simkit::count("hash-collision-exempt");
            return;
        }
        ctx.fail("output-differs", format!("{} clone output differs from the source at byte {:?}: {} vs {}; written by {}; {}", cname, gen::first_diff(&out, source), gen::fp(&out), gen::fp(source), m.writer, m.desc));
        return;
    }
    let nchunks = ra.dict.rebuild_order.len() as u64;
    ctx.verdict.nontrivial = nchunks >= 2;
    ctx.verdict.shape = nchunks ^ ((cloner as u64) << 40) ^ ((m.writer.len() as u64) << 48);
}
