//! The clone scenario family shared by C02 (seeds), C03 (in place), C06 (what is fetched),
//! C13 (what is written): a drawn archive, drawn seeds / prior output content / output kind,
//! executed through the CLI (L2) or the library (L1), locally or over simulated HTTP, with
//! everything observable recorded. Each property applies its own oracle to the observation.

use std::collections::{BTreeMap, BTreeSet, HashMap};
use std::sync::Arc;

use serde_json::{json, Value};

use crate::cli::Outcome;
use crate::gen::{self, Algo, Cfg};
use crate::harness::{Ctx, Tier};
use crate::net::LoggedRequest;
use crate::props::c01::{make_archive, Made};
use crate::props::preserve::{self, OutOp};
use crate::refmodel::chunker::ref_chunks;
use crate::refmodel::format::{decode_archive, RefArchive};
use crate::scen::{self, CloneOpts};
use crate::simio::{FileOp, SimFile, SimSource};
use crate::sys;

#[derive(Clone, Copy, Debug, PartialEq, Eq)]
pub enum Which {
    C02,
    C03,
    C06,
    C13,
    C16,
}

pub struct Fam {
    pub made: Made,
    pub ra: RefArchive,
    pub cfg: Cfg,
    pub level2: bool,
    pub http: bool,
    pub seeds: Vec<(Value, Arc<Vec<u8>>)>,
    pub stdin_at: Option<usize>,
    pub prior: Option<Vec<u8>>,
    pub seed_output: bool,
    pub blockdev: bool,
    pub verify_output: bool,
    pub buffers: usize,
    pub verbose: u32,
    pub desc: Value,
}

#[derive(Default)]
pub struct Observed {
    pub outcome: Option<Outcome>,
    pub output: Option<Vec<u8>>,
    /// every write to the output, in order: (position, bytes)
    pub writes: Vec<(u64, Vec<u8>)>,
    /// reads and writes on the output in the order they happened (C03's preservation monitor)
    pub out_ops: Vec<OutOp>,
    /// byte ranges read from the archive, in order: (offset, length)
    pub archive_reads: Vec<(u64, u64)>,
    pub http_log: Vec<LoggedRequest>,
    pub truncated_to: Option<u64>,
    /// (op, path, flags/arg, result) of every open / unlink / rename / mkdir / truncate of the command
    pub fs_events: Vec<(sys::Op, String, i64, i64)>,
    pub listing_before: std::collections::BTreeMap<String, (u64, String)>,
    pub listing_after: std::collections::BTreeMap<String, (u64, String)>,
}

/// the archive's chunker parameters as a Cfg (from the independent decoder)
pub fn cfg_of(ra: &RefArchive) -> Option<Cfg> {
    let p = ra.dict.params.as_ref()?;
    let algo = match p.algorithm {
        0 => Algo::BuzHash,
        1 => Algo::RollSum,
        2 => Algo::Fixed,
        _ => return None,
    };
    Some(Cfg { algo, window: p.window as usize, min: p.min as usize, max: p.max as usize, bits: p.filter_bits, avg: 0 })
}

/// Source layout from the dictionary: (source offset, descriptor index, size)
pub fn source_layout(ra: &RefArchive) -> Vec<(u64, usize, usize)> {
    let mut out = Vec::new();
    let mut off = 0u64;
    for &i in &ra.dict.rebuild_order {
        let d = &ra.dict.descriptors[i as usize];
        out.push((off, i as usize, d.source_size as usize));
        off += d.source_size as u64;
    }
    out
}

/// What scanning `data` with the archive's chunker finds: descriptor index -> offsets in `data`.
/// Matching is by truncated hash, exactly like a reader keyed on the stored checksums; a match
/// whose content is not the source chunk is a truncated-hash collision (flagged).
pub fn scan(ra: &RefArchive, cfg: &Cfg, source: &[u8], data: &[u8]) -> (BTreeMap<usize, Vec<u64>>, bool) {
    let hl = ra.dict.params.as_ref().map(|p| p.hash_length as usize).unwrap_or(64).min(64);
    let mut by_hash: HashMap<Vec<u8>, usize> = HashMap::new();
    for (i, d) in ra.dict.descriptors.iter().enumerate() {
        by_hash.entry(d.checksum[..d.checksum.len().min(hl)].to_vec()).or_insert(i);
    }
    let mut first_off: Vec<Option<u64>> = vec![None; ra.dict.descriptors.len()];
    for (off, i, _) in source_layout(ra) {
        first_off[i].get_or_insert(off);
    }
    let mut found: BTreeMap<usize, Vec<u64>> = BTreeMap::new();
    let mut collision = false;
    for (off, len) in ref_chunks(cfg, data) {
        let h = gen::blake2b512(&data[off..off + len]);
        if let Some(&i) = by_hash.get(&h[..hl]) {
            let d = &ra.dict.descriptors[i];
            let same = match first_off[i] {
                Some(so) => d.source_size as usize == len && source.get(so as usize..so as usize + len) == Some(&data[off..off + len]),
                None => true,
            };
            if !same {
                collision = true;
                continue;
            }
            found.entry(i).or_default().push(off as u64);
        }
    }
    (found, collision)
}

pub fn generate(ctx: &mut Ctx, which: Which) -> Option<Fam> {
    generate_with(ctx, which, |_| {})
}

pub fn generate_with(ctx: &mut Ctx, which: Which, tweak: impl FnOnce(&mut scen::CompressSpec)) -> Option<Fam> {
    // (C06/C07: a run of adjacent chunks of more than a MiB as stored needs a source of MiBs)
    let big = gen::chance(1, if ctx.tier == crate::harness::Tier::Thorough { 40 } else if matches!(which, Which::C06) { 200 } else { 600 });
    let max_len = if big { 3 << 20 } else { 64 * 1024 };
    // one in 600 (C06: 150): tens of thousands of tiny chunks, so that the header alone is more
    // than a MiB -- more than one buffer's worth for anything that reads it
    if !big && matches!(which, Which::C06 | Which::C02) && gen::chance(1, if matches!(which, Which::C06) { 150 } else { 600 }) {
        simkit::count("probe:header-larger-than-1MiB");
        let mut spec = scen::gen_compress_spec(false, false);
        tweak(&mut spec);
        spec.cfg = gen::Cfg { algo: gen::Algo::RollSum, window: 16, min: 8, max: 256, bits: 4, avg: 32 };
        spec.comp = gen::Comp::None;
        spec.hash_len = 64;
        spec.metadata.clear();
        let sspec = gen::SourceSpec { kind: "random", len: (3 << 19) + gen::draw(1 << 19) as usize, seed: gen::t(|t| t.seed64()), param: 0 };
        let source = Arc::new(gen::expand(&sspec));
        let (wname, outcome, archive, sched, short) = crate::props::c01::compress_with(&spec, &source, 2);
        let desc = json!({"writer": wname, "options": spec.json(), "source": sspec.json(), "schedule": sched, "short_read_pct": short});
        if !outcome.is_success() {
            ctx.fail(&format!("compress-lib:{}", outcome.class()), format!("{} compress of a valid scenario ended with {}; {}", wname, outcome.short(), desc));
            return None;
        }
        return generate_from(ctx, which, Made { spec, source, archive, writer: wname, desc });
    }
    let made = crate::props::c01::make_archive_with(ctx, max_len, big, None, tweak)?;
    generate_from(ctx, which, made)
}

/// the scenario family around a given archive
pub fn generate_from(ctx: &mut Ctx, which: Which, made: Made) -> Option<Fam> {
    let ra = match decode_archive(&made.archive) {
        Ok(a) => a,
        Err(e) => {
            ctx.fail("archive-undecodable", format!("reference decoder rejects the archive: {}", e));
            return None;
        }
    };
    let cfg = cfg_of(&ra)?;
    let unit = made.spec.cfg.expected_avg();
    let (level2, http, seed_output, n_seeds, blockdev, existing) = simkit::with(|s| {
        let t = &mut s.tape;
        let level2 = t.draw(2) == 0;
        let http = t.chance(1, 3);
        let seed_output = match which {
            Which::C03 => true,
            Which::C02 => t.chance(1, 5),
            _ => t.chance(1, 2),
        };
        let n_seeds = match which {
            Which::C02 => 1 + t.weighted(&[5, 3, 1]),
            Which::C03 => t.weighted(&[6, 2, 1]),
            _ => t.weighted(&[3, 4, 2, 1]),
        };
        let blockdev = t.chance(1, 5);
        let existing = t.chance(1, 3);
        (level2, http, seed_output, n_seeds, blockdev, existing)
    });
    let mut seeds = Vec::new();
    for _ in 0..n_seeds {
        let (d, data) = gen::gen_seed_data(&made.source, unit);
        seeds.push((d, Arc::new(data)));
    }
    let stdin_at = if level2 && !seeds.is_empty() && gen::chance(1, 3) { Some(gen::draw(seeds.len() as u32) as usize) } else { None };
    let mut prior = if seed_output || existing || blockdev {
        let (_, data) = gen::gen_seed_data(&made.source, unit);
        Some(data)
    } else {
        None
    };
    // chunks of MiBs that have to move by much less than their own size: a few bytes to a few
    // hundred KiB were removed from (or added to) the old version somewhere in front of them
    if seed_output && unit >= (256 << 10) && made.source.len() > (1 << 20) && made.spec.cfg.algo != gen::Algo::Fixed && gen::chance(1, 2) {
        let src = &made.source;
        let at = gen::draw((src.len() / 4) as u32) as usize;
        let n = 1 + gen::draw(*gen::t(|t| t.pick(&[100u32, 5000, 300_000]))) as usize;
        let mut p = src[..at].to_vec();
        if gen::chance(1, 2) {
            // the old version lacks n bytes: everything behind moves up
            p.extend_from_slice(&src[(at + n).min(src.len())..]);
        } else {
            // the old version has n bytes more: everything behind moves down
            let mut extra = vec![0u8; n];
            simkit::prng::Rng::new(gen::t(|t| t.seed64())).fill(&mut extra);
            p.extend_from_slice(&extra);
            p.extend_from_slice(&src[at..]);
        }
        prior = Some(p);
        simkit::count("probe:huge-chunks-shifted-by-less-than-their-size");
    }
    if blockdev {
        // a device at least as large as the source
        let p = prior.get_or_insert_with(Vec::new);
        let want = made.source.len() + if gen::chance(1, 2) { 0 } else { gen::draw(4096) as usize };
        if p.len() < want {
            let mut rng = simkit::prng::Rng::new(gen::t(|t| t.seed64()));
            let mut pad = vec![0u8; want - p.len()];
            rng.fill(&mut pad);
            p.extend_from_slice(&pad);
        }
    }
    // --verify-output hashes a block device to its end, so it always reports a mismatch when the
    // device is larger than the source (bita defect outside the listed properties: DESIGN.md O2)
    let verify_output = gen::chance(1, 4) && !(blockdev && prior.as_ref().map(|p| p.len() > made.source.len()).unwrap_or(false));
    let buffers = gen::gen_buffers();
    let verbose = simkit::with(|s| s.tape.weighted(&[6, 2, 1])) as u32;
    let desc = json!({
        "archive": made.desc, "level": if level2 { "cli" } else { "lib" }, "transport": if http { "http" } else { "local" },
        "seeds": seeds.iter().map(|(d, _)| d.clone()).collect::<Vec<_>>(), "stdin_seed_at": stdin_at,
        "prior_output": prior.as_ref().map(|p| gen::fp(p)), "seed_output": seed_output, "block_device": blockdev,
        "verify_output": verify_output, "buffered_chunks": buffers,
    });
    if ctx.want_sample {
        ctx.verdict.sample = Some(desc.clone());
    }
    Some(Fam { made, ra, cfg, level2, http, seeds, stdin_at, prior, seed_output, blockdev, verify_output, buffers, verbose, desc })
}

pub fn execute(f: &Fam) -> Observed {
    execute_with(f, None, &ExecExtra::default())
}

#[derive(Default, Clone)]
pub struct ExecExtra {
    pub verify_header: Option<String>,
    /// per-request faults of the HTTP server
    pub net_script: Vec<Option<crate::net::NetFault>>,
    /// do not pass --force-create although the output exists (the clone must refuse)
    pub no_force: bool,
    /// --http-retry-count (HTTP only)
    pub retries: u32,
    /// --http-retry-delay in seconds (HTTP only)
    pub retry_delay: u64,
    /// --http-timeout in seconds (HTTP, CLI only)
    pub timeout: Option<u64>,
    /// pass the (existing, regular) output itself as one more --seed, under this spelling.
    /// Every chunk a seed delivers is verified by content, so the output is still exact; which
    /// chunks the aliased seed still holds when they are scanned depends on the order of the
    /// writes, so fetch-set oracles do not apply to such a run.
    pub alias_output_as_seed: Option<&'static str>,
    /// the existing output has a second hard link, `out.hl`
    pub hard_link_output: bool,
    /// the HTTP server serves this other archive from the n-th request on
    pub switch_archive_after: Option<(usize, Vec<u8>)>,
}

/// `presented`: the bytes actually served / stored as the archive (a corrupted copy)
pub fn execute_with(f: &Fam, presented: Option<&[u8]>, extra: &ExecExtra) -> Observed {
    let archive_bytes: Vec<u8> = presented.map(|p| p.to_vec()).unwrap_or_else(|| f.made.archive.clone());
    let mut ob = Observed::default();
    let sched = scen::draw_schedule();
    let _ = sched;
    scen::draw_short_reads();
    let server = if f.http {
        let s = scen::serve(Arc::new(archive_bytes.clone()));
        s.lock().unwrap().script = extra.net_script.clone();
        if let Some((n, other)) = &extra.switch_archive_after {
            s.lock().unwrap().switch_after = Some((*n, Arc::new(other.clone())));
        }
        Some(s)
    } else {
        None
    };
    if f.level2 {
        if !f.http {
            scen::put_file("a.cba", &archive_bytes);
        } else {
            // the archive written by a CLI compress is still lying around: remove it so that
            // nothing but the server can supply it
            scen::quiet(|| {
                let _ = std::fs::remove_file("a.cba");
            });
        }
        let mut opts = CloneOpts { http: f.http, seed_output: f.seed_output, verify_output: f.verify_output, buffers: f.buffers, verbose: f.verbose, verify_header: extra.verify_header.clone(), retries: if f.http { extra.retries } else { 0 }, retry_delay: if f.http { extra.retry_delay } else { 0 }, timeout: if f.http { extra.timeout } else { None }, ..Default::default() };
        let mut stdin_data = None;
        let mut blockdev_seeds: Vec<String> = Vec::new();
        for (i, (_, data)) in f.seeds.iter().enumerate() {
            if f.stdin_at == Some(i) {
                stdin_data = Some(data.to_vec());
            } else {
                let name = format!("seed{}.bin", i);
                scen::put_file(&name, data);
                // a seed may be a partition of a disk: stat says size 0, reading it says otherwise
                if !data.is_empty() && gen::chance(1, 10) {
                    sys::with(|s| s.path_mut(&name).fake_blockdev = true);
                    blockdev_seeds.push(name.clone());
                    simkit::count("probe:seed-is-a-block-device");
                }
                opts.seeds.push(name);
            }
        }
        // credentials the server insists on, on every request (first, merged, retried alike)
        if f.http && gen::chance(1, 5) {
            let spelled = *gen::t(|t| t.pick(&["Authorization: Bearer s3cr3t", "Authorization:Bearer s3cr3t", "authorization:   Bearer s3cr3t"]));
            opts.headers.push(spelled.to_string());
            if gen::chance(1, 2) {
                opts.headers.push("X-Trace: on".to_string());
            }
            if let Some(s) = &server {
                s.lock().unwrap().require_header = Some(("authorization".into(), "Bearer s3cr3t".into()));
            }
            simkit::count("probe:http-header-required-by-server");
        }
        // a generous --http-timeout changes nothing: no simulated transfer takes a day
        if f.http && opts.timeout.is_none() && gen::chance(1, 4) {
            opts.timeout = Some(86_400);
            simkit::count("probe:benign-http-timeout");
        }
        if stdin_data.is_some() {
            // position of "--seed -" among the file seeds (bita always consumes stdin first)
            opts.seed_stdin_at = Some(gen::draw(opts.seeds.len() as u32 + 1) as usize);
        }
        // one clone in eight that was NOT given `--seed -` finds data on its standard input all the
        // same (it runs inside a shell loop, behind a pipe): the source itself, i.e. every chunk
        // it could wish for. Nobody asked it to read that: what it fetches, writes and reports
        // must be what it would be on a terminal (automut s_clone_cmd-L253: `&&` -> `||` in
        // "seed_stdin && stdin is not a terminal")
        if stdin_data.is_none() && gen::chance(1, 8) {
            stdin_data = Some(f.made.source.to_vec());
            simkit::count("probe:stray-data-on-stdin-without-seed-option");
        }
        scen::set_stdin(stdin_data);
        match &f.prior {
            Some(p) => {
                if let Some(spelling) = extra.alias_output_as_seed {
                    let at = gen::draw(opts.seeds.len() as u32 + 1) as usize;
                    opts.seeds.insert(at, spelling.to_string());
                    simkit::count("probe:output-is-also-a-seed");
                }
                scen::put_file("out.bin", p);
                scen::quiet(|| {
                    let _ = std::fs::remove_file("out.hl");
                    if extra.hard_link_output {
                        let _ = std::fs::hard_link("out.bin", "out.hl");
                    }
                });
                if !f.seed_output && !extra.no_force {
                    opts.force_create = true;
                }
                // the two options together mean what --seed-output means alone: the old
                // content is scanned and re-used, not emptied first
                if f.seed_output && !extra.no_force && gen::chance(1, 3) {
                    opts.force_create = true;
                    simkit::count("probe:seed-output-with-force-create");
                }
            }
            None => scen::quiet(|| {
                let _ = std::fs::remove_file("out.bin");
            }),
        }
        sys::with(|s| {
            let p = s.path_mut("out.bin");
            p.capture = true;
            p.fake_blockdev = f.blockdev;
            s.log.clear();
        });
        ob.listing_before = scen::listing();
        let r = scen::run(&scen::clone_args("a.cba", "out.bin", &opts));
        ob.listing_after = scen::listing();
        scen::set_stdin(None);
        ob.outcome = Some(r.outcome);
        ob.output = scen::get_file("out.bin");
        sys::with(|s| {
            for e in &s.log {
                if matches!(e.op, sys::Op::Open | sys::Op::Unlink | sys::Op::Rename | sys::Op::Mkdir | sys::Op::Truncate) {
                    ob.fs_events.push((e.op, s.path_name(e.path).to_string(), e.a, e.ret));
                }
            }
            for e in s.events_for("out.bin") {
                match e.op {
                    sys::Op::Write if e.ret > 0 => {
                        ob.writes.push((e.a as u64, e.data.clone().unwrap_or_default()));
                        ob.out_ops.push(OutOp::Write { pos: e.a as u64, data: e.data.clone().unwrap_or_default() });
                    }
                    sys::Op::Read if e.ret >= 0 => ob.out_ops.push(OutOp::Read { pos: e.a as u64, len: e.ret as usize }),
                    sys::Op::Truncate if e.ret == 0 => ob.truncated_to = Some(e.a as u64),
                    _ => {}
                }
            }
            if !f.http {
                for e in s.events_for("a.cba") {
                    if e.op == sys::Op::Read && e.ret > 0 {
                        ob.archive_reads.push((e.a as u64, e.ret as u64));
                    }
                }
            }
            s.path_mut("out.bin").fake_blockdev = false;
            for n in &blockdev_seeds {
                s.path_mut(n).fake_blockdev = false;
            }
        });
    } else {
        let out = SimFile::drawn(f.prior.clone().unwrap_or_default());
        out.with(|g| g.fixed_size = f.blockdev);
        let seeds: Vec<SimSource> = f.seeds.iter().map(|(_, d)| SimSource::drawn(d.clone())).collect();
        let (r, archive_file) = if f.http {
            (scen::run_lib_clone_http(out.clone(), seeds, f.seed_output, extra.retries, extra.retry_delay), None)
        } else {
            let af = SimFile::drawn(archive_bytes.clone());
            let reader = bitar::archive_reader::IoReader::new(af.clone());
            // (the livelock budget grows with the bytes to be scanned, as in scen::run_lib_clone_local)
            let bytes = archive_bytes.len() as u64 * 2 + out.with(|g| g.data.len() as u64) + seeds.iter().map(|s| s.len() as u64).sum::<u64>();
            (scen::with_budget_for(bytes, || crate::cli::run_async(scen::lib_clone(reader, out.clone(), seeds, f.seed_output))), Some(af))
        };
        ob.outcome = Some(scen::lib_outcome(&r));
        ob.output = Some(out.contents());
        for op in out.ops() {
            match op {
                FileOp::Write { pos, data } => {
                    if !data.is_empty() {
                        ob.out_ops.push(OutOp::Write { pos, data: data.clone() });
                        ob.writes.push((pos, data));
                    }
                }
                FileOp::Read { pos, len } => ob.out_ops.push(OutOp::Read { pos, len }),
                _ => {}
            }
        }
        if let Some(af) = archive_file {
            for op in af.ops() {
                if let FileOp::Read { pos, len } = op {
                    if len > 0 {
                        ob.archive_reads.push((pos, len as u64));
                    }
                }
            }
        }
    }
    if let Some(s) = server {
        let g = s.lock().unwrap();
        ob.http_log = g.log.clone();
        for r in &g.log {
            if let Some((a, b)) = r.parsed {
                // (a reversed range -- bytes=N-(N-1) -- reads nothing; the request itself stays in http_log)
                ob.archive_reads.push((a, (b + 1).saturating_sub(a)));
            }
        }
        drop(g);
        crate::net::uninstall();
    }
    ob
}

pub struct Expect {
    /// descriptor indexes that must be fetched from the archive
    pub fetch: BTreeSet<usize>,
    /// source locations (offset) already holding the right chunk in the prior output
    pub in_place: BTreeSet<u64>,
    /// a truncated-hash collision was seen while scanning: expectations are not exact
    pub collision: bool,
}

pub fn expect(f: &Fam) -> Expect {
    let layout = source_layout(&f.ra);
    let mut have: BTreeSet<usize> = BTreeSet::new();
    let mut in_place = BTreeSet::new();
    let mut collision = false;
    if f.seed_output {
        if let Some(p) = &f.prior {
            let (found, c) = scan(&f.ra, &f.cfg, &f.made.source, p);
            collision |= c;
            for (off, idx, _) in &layout {
                if let Some(offs) = found.get(idx) {
                    if offs.contains(off) {
                        in_place.insert(*off);
                    }
                }
            }
            have.extend(found.keys());
        }
    }
    for (_, data) in &f.seeds {
        let (found, c) = scan(&f.ra, &f.cfg, &f.made.source, data);
        collision |= c;
        have.extend(found.keys());
    }
    let needed: BTreeSet<usize> = layout.iter().map(|(_, i, _)| *i).collect();
    let fetch = needed.difference(&have).copied().collect();
    Expect { fetch, in_place, collision }
}

/// truncated-hash collisions between different chunks anywhere in the scenario make the
/// outcome the user's responsibility (hash length < 8 only)
fn collision_possible(f: &Fam) -> bool {
    f.made.spec.hash_len < 8
}

/// two descriptors of the archive share their stored (truncated) checksum: different chunks
/// of the source collide under the chosen hash length, no reader can tell them apart
pub fn truncated_twins(ra: &RefArchive) -> bool {
    let mut seen = std::collections::HashSet::new();
    ra.dict.descriptors.iter().any(|d| !seen.insert(&d.checksum[..]))
}

pub fn check_output(ctx: &mut Ctx, f: &Fam, ob: &Observed) -> bool {
    let outcome = ob.outcome.clone().unwrap();
    let src = &f.made.source;
    if !outcome.is_success() {
        ctx.fail(&format!("clone-outcome:{}", outcome.class()), format!("clone of a valid scenario ended with {}; {}", outcome.short(), f.desc));
        return false;
    }
    let out = ob.output.clone().unwrap_or_default();
    let exact_len = f.level2 && !f.blockdev;
    let cmp = if exact_len { &out[..] } else { &out[..out.len().min(src.len())] };
    if cmp != &src[..] || out.len() < src.len() {
        if collision_possible(f) && (truncated_twins(&f.ra) || expect(f).collision) {
            simkit::count("hash-collision-exempt");
            return false;
        }
        ctx.fail(
            "output-differs",
            format!("clone reported success but the output differs from the source at byte {:?} (output {} vs source {}); {}", gen::first_diff(cmp, src), gen::fp(&out), gen::fp(src), f.desc),
        );
        return false;
    }
    true
}

pub fn check_fetch(ctx: &mut Ctx, f: &Fam, ob: &Observed) {
    let ex = expect(f);
    if ex.collision || truncated_twins(&f.ra) {
        simkit::count("hash-collision-exempt");
        return;
    }
    // expected multiset of archive bytes behind the header: the stored range of each fetched chunk,
    // once. How (and how often) the header region is read is not the property's business.
    let mut want: Vec<(u64, u64)> = Vec::new();
    for &i in &ex.fetch {
        let d = &f.ra.dict.descriptors[i];
        if d.archive_size > 0 {
            want.push((f.ra.chunk_data_offset + d.archive_offset, d.archive_size as u64));
        }
    }
    let cover = |ranges: &[(u64, u64)]| -> BTreeMap<u64, i64> {
        // sweep line: position -> delta
        let mut m: BTreeMap<u64, i64> = BTreeMap::new();
        for &(o, l) in ranges {
            if l > 0 {
                *m.entry(o).or_insert(0) += 1;
                *m.entry(o + l).or_insert(0) -= 1;
            }
        }
        m.retain(|_, v| *v != 0);
        m
    };
    let cdo = f.ra.chunk_data_offset;
    let got_data: Vec<(u64, u64)> = ob.archive_reads.iter().filter(|&&(o, l)| o + l > cdo).map(|&(o, l)| if o >= cdo { (o, l) } else { (cdo, o + l - cdo) }).collect();
    let (w, g) = (cover(&want), cover(&got_data));
    if w != g {
        // describe the first difference
        let mut keys: BTreeSet<u64> = w.keys().copied().collect();
        keys.extend(g.keys());
        let k = keys.into_iter().find(|k| w.get(k) != g.get(k)).unwrap();
        let fetched_extra: Vec<usize> = f
            .ra
            .dict
            .descriptors
            .iter()
            .enumerate()
            .filter(|(i, d)| !ex.fetch.contains(i) && ob.archive_reads.iter().any(|&(o, l)| o < f.ra.chunk_data_offset + d.archive_offset + d.archive_size as u64 && f.ra.chunk_data_offset + d.archive_offset < o + l && d.archive_size > 0))
            .map(|(i, _)| i)
            .take(5)
            .collect();
        ctx.fail(
            if fetched_extra.is_empty() { "fetch-set" } else { "fetched-available-chunk" },
            format!(
                "bytes read from the archive differ from header + stored ranges of the {} missing chunks (first difference at archive offset {}; chunks fetched although found in a seed or the prior output: {:?}; {} reads/requests); {}",
                ex.fetch.len(), k, fetched_extra, ob.archive_reads.len(), f.desc
            ),
        );
    }
}

pub fn check_writes(ctx: &mut Ctx, f: &Fam, ob: &Observed) {
    let ex = expect(f);
    if ex.collision || truncated_twins(&f.ra) {
        simkit::count("hash-collision-exempt");
        return;
    }
    let src = &f.made.source;
    let layout = source_layout(&f.ra);
    let locs: BTreeMap<u64, usize> = layout.iter().map(|(o, _, s)| (*o, *s)).collect();
    // coalesce writes that continue where the previous one ended (a chunk larger than the
    // 2 MiB file buffer, or a short write, is split)
    let mut extents: Vec<(u64, Vec<u8>)> = Vec::new();
    for (pos, data) in &ob.writes {
        if let Some((p, d)) = extents.last_mut() {
            if *p + d.len() as u64 == *pos {
                d.extend_from_slice(data);
                continue;
            }
        }
        extents.push((*pos, data.clone()));
    }
    let mut written: BTreeMap<u64, u32> = BTreeMap::new();
    for (pos, data) in &extents {
        let mut p = *pos;
        let end = pos + data.len() as u64;
        if end > src.len() as u64 {
            ctx.fail("write-beyond-source", format!("write of {} bytes at {} reaches beyond the source length {}; {}", data.len(), pos, src.len(), f.desc));
            return;
        }
        while p < end {
            let Some(&size) = locs.get(&p) else {
                ctx.fail("write-not-a-chunk", format!("write at {} (+{}) does not start at a source chunk offset; {}", pos, p - pos, f.desc));
                return;
            };
            if p + size as u64 > end {
                ctx.fail("write-not-a-chunk", format!("write at {} of {} bytes ends inside the source chunk at {} (size {}); {}", pos, data.len(), p, size, f.desc));
                return;
            }
            let a = (p - pos) as usize;
            if data[a..a + size] != src[p as usize..p as usize + size] {
                ctx.fail("write-wrong-bytes", format!("bytes written at {} are not the source chunk located there; {}", p, f.desc));
                return;
            }
            *written.entry(p).or_insert(0) += 1;
            p += size as u64;
        }
    }
    if let Some((o, n)) = written.iter().find(|(_, n)| **n > 1) {
        ctx.fail("location-written-twice", format!("source location {} was written {} times; {}", o, n, f.desc));
        return;
    }
    if let Some(o) = ex.in_place.iter().find(|o| written.contains_key(o)) {
        ctx.fail("in-place-chunk-rewritten", format!("the prior output already held the right chunk at {} (found by the scan) but it was written again; {} in-place locations; {}", o, ex.in_place.len(), f.desc));
    }
}

/// C03's during-the-run clause on the real clone: no chunk that the scan of the prior output
/// finds and the source needs is destroyed before it has been copied to all its destinations
/// or read into memory (props/preserve.rs).
pub fn check_preservation(ctx: &mut Ctx, f: &Fam, ob: &Observed) {
    let (true, Some(prior)) = (f.seed_output, f.prior.as_ref()) else { return };
    if truncated_twins(&f.ra) {
        simkit::count("hash-collision-exempt");
        return;
    }
    let (found, collision) = scan(&f.ra, &f.cfg, &f.made.source, prior);
    if collision {
        simkit::count("hash-collision-exempt");
        return;
    }
    let mut dests: BTreeMap<usize, (usize, Vec<u64>)> = BTreeMap::new();
    for (off, idx, size) in source_layout(&f.ra) {
        dests.entry(idx).or_insert((size, Vec::new())).1.push(off);
    }
    let mut table = Vec::new();
    let mut n_locs = 0usize;
    for (idx, locs) in &found {
        let Some((size, d)) = dests.get(idx) else { continue };
        if *size == 0 {
            continue;
        }
        let first = d[0] as usize;
        n_locs += locs.len() + d.len();
        table.push(preserve::Reusable { id: *idx, content: f.made.source[first..first + size].to_vec(), locs: locs.clone(), dests: d.clone() });
    }
    if table.is_empty() {
        return;
    }
    if n_locs > 200_000 {
        simkit::count("preservation-monitor-skipped:too-many-locations");
        return;
    }
    let (v, n) = preserve::monitor(prior, &ob.out_ops, &table, false);
    simkit::count_n("preservation-checks", n);
    simkit::count("preservation-monitored-clones");
    if let Some(v) = v {
        ctx.fail("reusable-chunk-destroyed", format!("{}; {}", v.text, f.desc));
    }
}

pub fn nontrivial(f: &Fam, ob: &Observed, which: Which) -> (bool, u64) {
    let n = f.ra.dict.rebuild_order.len() as u64;
    let shape = n ^ ((f.seeds.len() as u64) << 20) ^ ((f.level2 as u64) << 30) ^ ((f.http as u64) << 31) ^ ((f.seed_output as u64) << 32) ^ ((f.blockdev as u64) << 33) ^ ((ob.writes.len() as u64) << 40);
    let nt = match which {
        Which::C02 => n >= 2 && !f.seeds.is_empty() && !expect(f).fetch.is_empty() && (expect(f).fetch.len() as u64) < f.ra.dict.descriptors.len() as u64,
        Which::C03 => n >= 2 && f.seed_output && f.prior.as_ref().map(|p| !p.is_empty()).unwrap_or(false) && ob.writes.len() >= 1,
        Which::C06 | Which::C13 | Which::C16 => n >= 2 && (f.seed_output || !f.seeds.is_empty()),
    };
    (nt, shape)
}

pub fn run_which(ctx: &mut Ctx, which: Which) {
    let Some(f) = generate(ctx, which) else { return };
    let ob = execute(&f);
    if !check_output(ctx, &f, &ob) {
        if ctx.failed() && !matches!(which, Which::C02 | Which::C03) {
            // the other properties only judge successful, correct clones; a wrong output is
            // reported by C02/C03 -- here it only makes the run inconclusive
            let v = ctx.verdict.violation.take();
            if let Some(v) = v {
                if v.class.contains("clone-outcome:Panic") || v.class.contains("StepBudget") || v.class.contains("Deadlock") {
                    ctx.verdict.violation = Some(v);
                } else {
                    simkit::count("inconclusive-wrong-output");
                }
            }
        }
        return;
    }
    if f.level2 && !f.blockdev {
        let out = ob.output.as_ref().unwrap();
        if out.len() != f.made.source.len() {
            ctx.fail("file-length", format!("regular output file has length {} after a successful clone, source has {}; {}", out.len(), f.made.source.len(), f.desc));
            return;
        }
    }
    match which {
        Which::C02 => {}
        Which::C03 => check_preservation(ctx, &f, &ob),
        Which::C06 => check_fetch(ctx, &f, &ob),
        Which::C13 => check_writes(ctx, &f, &ob),
        Which::C16 => {}
    }
    let (nt, shape) = nontrivial(&f, &ob, which);
    ctx.verdict.nontrivial = nt;
    ctx.verdict.shape = shape;
}

pub fn run_c02(ctx: &mut Ctx) {
    run_which(ctx, Which::C02)
}
pub fn run_c03_cli(ctx: &mut Ctx) {
    run_which(ctx, Which::C03)
}
pub fn run_c06(ctx: &mut Ctx) {
    run_which(ctx, Which::C06)
}
pub fn run_c13(ctx: &mut Ctx) {
    run_which(ctx, Which::C13)
}
