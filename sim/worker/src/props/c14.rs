//! C14 — a refused operation leaves the output untouched. The grid
//! {clone, compress} x {output absent, regular file, block device (larger / smaller than the
//! source)} x {--force-create, --seed-output, neither} x {valid archive, random bytes, bit
//! flip in the header, truncated header, --verify-header mismatch} x {local, HTTP} is
//! enumerated by cell index; contents and schedules are drawn.

use std::sync::Arc;

use serde_json::json;

use crate::cli::Outcome;
use crate::gen;
use crate::harness::Ctx;
use crate::props::c01::make_archive;
use crate::refmodel::format::decode_archive;
use crate::scen::{self, CloneOpts};
use crate::sys;

const OUTPUTS: [&str; 6] = ["absent", "file", "blockdev-large", "blockdev-small", "blockdev-small-via-symlink", "absent+concurrent-creator"];
const FLAGS: [&str; 3] = ["none", "force-create", "seed-output"];
const ARCHIVES: [&str; 7] = ["valid", "random-bytes", "header-bit-flip", "truncated-header", "verify-header-mismatch", "empty-file", "inconsistent-dictionary"];

pub const CLONE_CELLS: u32 = (OUTPUTS.len() * FLAGS.len() * ARCHIVES.len() * 2) as u32;
pub const COMPRESS_CELLS: u32 = 6;

pub fn run(ctx: &mut Ctx) {
    // a fifth of the runs goes to the (few) compress cells
    if gen::chance(1, 5) {
        run_compress(ctx, gen::draw(COMPRESS_CELLS));
    } else {
        run_clone(ctx, gen::draw(CLONE_CELLS));
    }
}

const MARKER: &[u8] = b"created by another process while bita was running";

/// A concurrent process that creates the output path exclusively (like `set -o noclobber`)
/// at whatever moment the scheduler picks: a detached task in the simulated pool.
fn spawn_creator(path: &'static str) -> std::sync::Arc<std::sync::atomic::AtomicBool> {
    let created = std::sync::Arc::new(std::sync::atomic::AtomicBool::new(false));
    let c2 = created.clone();
    tokio::__spawn_blocking_detached(move || {
        use std::io::Write;
        if let Ok(mut f) = std::fs::OpenOptions::new().write(true).create_new(true).open(path) {
            let _ = f.write_all(MARKER);
            c2.store(true, std::sync::atomic::Ordering::Relaxed);
        }
    });
    created
}

fn run_compress(ctx: &mut Ctx, cell: u32) {
    if cell >= 4 {
        return run_compress_race(ctx, cell == 5);
    }
    let existing = cell & 1 == 1;
    let force = cell & 2 == 2;
    let spec = {
        let mut s = scen::gen_compress_spec(true, false);
        s.metadata = scen::cli_safe_metadata(&s.metadata);
        s
    };
    let (_, data) = gen::gen_source(&spec.cfg, 8 * 1024);
    // (an existing output is an existing output, whatever is in it: one in three is empty)
    let prior: Vec<u8> = if gen::chance(1, 3) {
        Vec::new()
    } else {
        let (_, d) = gen::gen_source(&spec.cfg, 4096);
        d
    };
    scen::put_file("src.bin", &data);
    if existing {
        scen::put_file("a.cba", &prior);
    }
    scen::set_stdin(None);
    scen::draw_schedule();
    // one run in five: the first open(s) of the output path fail transiently (ETIMEDOUT / ESTALE /
    // EINTR, as on a network file system). Whatever compress does about that, an output that
    // existed and was not to be overwritten stays as it is.
    let open_fault = if gen::chance(1, 5) {
        let errno = *gen::t(|t| t.pick(&[libc::ETIMEDOUT, libc::ESTALE, libc::EINTR, libc::EAGAIN]));
        let n = 1 + gen::draw(2) as u64;
        Some((errno, n))
    } else {
        None
    };
    sys::with(|s| {
        s.log.clear();
        if let Some((errno, n)) = open_fault {
            let base = s.path_mut("a.cba").opens;
            for i in 0..n {
                s.add_fault("a.cba", sys::Op::Open, base + i, sys::FaultAction::Errno(errno));
            }
        }
    });
    let r = scen::run(&scen::compress_args(&spec, Some("src.bin"), "a.cba", force));
    sys::with(|s| s.faults.clear());
    let desc = json!({"command": "compress", "existing_output": existing, "force_create": force, "transient_open_failures": open_fault.map(|(e, n)| format!("{} x errno {}", n, e))});
    if ctx.want_sample {
        ctx.verdict.sample = Some(desc.clone());
    }
    simkit::with(|s| s.event("c14-cell", (1000 + cell) as u64, 0));
    if existing && !force {
        // refusal (a)
        if r.outcome.is_success() {
            ctx.fail("compress-overwrote", format!("compress succeeded although the output exists and --force-create was not given; {}", desc));
            return;
        }
        if scen::get_file("a.cba").as_deref() != Some(&prior[..]) {
            ctx.fail("compress-refusal-changed-output", format!("compress refused ({}), but the existing output changed; {}", r.outcome.short(), desc));
            return;
        }
        let touched = sys::with(|s| s.events_for("a.cba").any(|e| matches!(e.op, sys::Op::Write | sys::Op::Truncate) || (e.op == sys::Op::Open && e.a & libc::O_TRUNC as i64 != 0 && e.ret >= 0)));
        if touched {
            ctx.fail("compress-refusal-touched-output", format!("compress refused but wrote to / truncated the existing output; {}", desc));
            return;
        }
        if scen::exists("a..tmp") {
            ctx.fail("compress-refusal-left-temp", format!("compress refused but left a temp file; {}", desc));
            return;
        }
        simkit::count("refusal:compress-exists");
    } else if !r.outcome.is_success() && open_fault.is_none() {
        ctx.fail(&format!("compress-outcome:{}", r.outcome.class()), format!("compress that must proceed ended with {}; {}", r.outcome.short(), desc));
        return;
    }
    ctx.verdict.nontrivial = true;
    ctx.verdict.shape = 1000 + cell as u64;
}

fn run_compress_race(ctx: &mut Ctx, stdin: bool) {
    let spec = {
        let mut s = scen::gen_compress_spec(true, false);
        s.metadata = scen::cli_safe_metadata(&s.metadata);
        s
    };
    let (_, data) = gen::gen_source(&spec.cfg, 16 * 1024);
    scen::quiet(|| {
        let _ = std::fs::remove_file("a.cba");
    });
    if stdin {
        scen::set_stdin(Some(data.clone()));
    } else {
        scen::put_file("src.bin", &data);
        scen::set_stdin(None);
    }
    let sched = scen::draw_schedule();
    let created = spawn_creator("a.cba");
    let r = scen::run(&scen::compress_args(&spec, if stdin { None } else { Some("src.bin") }, "a.cba", false));
    scen::set_stdin(None);
    let created = created.load(std::sync::atomic::Ordering::Relaxed);
    let desc = json!({"command": "compress", "output": "absent + concurrent exclusive creator", "stdin": stdin, "schedule": sched, "creator_won": created, "outcome": r.outcome.short()});
    if ctx.want_sample {
        ctx.verdict.sample = Some(desc.clone());
    }
    simkit::with(|s| s.event("c14-cell", 2000 + stdin as u64, created as u64));
    if created {
        // the other process created the file: bita must refuse and leave it alone
        let now = scen::get_file("a.cba");
        if now.as_deref() != Some(MARKER) {
            ctx.fail("compress-overwrote-concurrently-created-output", format!("the output path was created by another process while compress was running (it did not exist before and --force-create was not given); compress {} and the file no longer holds the other process's data; {}", r.outcome.short(), desc));
            return;
        }
        if r.outcome.is_success() {
            ctx.fail("compress-race-succeeded", format!("compress reported success although the output was created by someone else; {}", desc));
            return;
        }
        simkit::count("refusal:concurrent-creator");
    } else if !r.outcome.is_success() {
        ctx.fail(&format!("compress-outcome:{}", r.outcome.class()), format!("compress that must proceed ended with {}; {}", r.outcome.short(), desc));
        return;
    }
    ctx.verdict.nontrivial = true;
    ctx.verdict.shape = 2000 + stdin as u64 + 2 * created as u64;
}

fn run_clone(ctx: &mut Ctx, cell: u32) {
    let mut c = cell as usize;
    let http = c % 2 == 1;
    c /= 2;
    let archive_kind = ARCHIVES[c % ARCHIVES.len()];
    c /= ARCHIVES.len();
    let flag = FLAGS[c % FLAGS.len()];
    c /= FLAGS.len();
    let output_kind = OUTPUTS[c % OUTPUTS.len()];

    let Some(m) = make_archive(ctx, 16 * 1024, false, None) else { return };
    let Ok(ra) = decode_archive(&m.archive) else { return };
    let src_len = m.source.len();
    // the archive as presented
    let mut presented = m.archive.clone();
    let mut verify_header: Option<String> = None;
    match archive_kind {
        "random-bytes" => {
            let n = *gen::t(|t| t.pick(&[100usize, 1, 5, 13, 14, 90, 5000]));
            presented = vec![0u8; n];
            simkit::prng::Rng::new(gen::t(|t| t.seed64())).fill(&mut presented);
        }
        "empty-file" => presented.clear(),
        "header-bit-flip" => {
            // any bit of the header except the upper bytes of the dictionary size (those make the
            // reader try to allocate petabytes: C15's business, and fatal to the worker)
            let mut pos = gen::draw(ra.header_len as u32) as usize;
            if (9..14).contains(&pos) {
                pos = 14 + gen::draw((ra.header_len - 14) as u32) as usize;
            }
            presented[pos] ^= 1 << gen::draw(8);
        }
        "truncated-header" => {
            let n = gen::draw(ra.header_len as u32) as usize;
            presented.truncate(n);
        }
        "inconsistent-dictionary" => {
            // a header whose checksum is right (re-encoded by the independent encoder) around a
            // dictionary that no conforming archive can have: a rebuild index that names no
            // descriptor (exactly one past the last, or far beyond), or a stored chunk whose
            // offset runs past the end of the 64-bit address space. The archive is invalid; the
            // clone must refuse it before the output path comes into being (S14-A: validation
            // off by one, and the part that trips over it moved behind the open).
            let mut d = ra.dict.clone();
            let nd = d.descriptors.len();
            let what = if nd == 0 { 0 } else { gen::draw(3) };
            match what {
                0 | 1 => {
                    let v = [nd as u32, nd as u32, nd as u32 + 1, u32::MAX][gen::draw(4) as usize];
                    if d.rebuild_order.is_empty() || what == 0 {
                        d.rebuild_order.push(v);
                    } else {
                        let i = gen::draw(d.rebuild_order.len() as u32) as usize;
                        d.rebuild_order[i] = v;
                    }
                }
                _ => {
                    let i = gen::draw(nd as u32) as usize;
                    d.descriptors[i].archive_offset = u64::MAX - gen::draw(64) as u64;
                }
            }
            let db = crate::refmodel::format::encode_dict(&d, &crate::refmodel::format::EncodeStyle::default());
            let mut a = crate::refmodel::format::build_header(if ra.legacy_magic { crate::refmodel::format::LEGACY_MAGIC } else { crate::refmodel::format::MAGIC }, &db, None);
            a.extend_from_slice(&m.archive[ra.chunk_data_offset as usize..]);
            presented = a;
        }
        "verify-header-mismatch" => {
            let mut sum = ra.header_checksum.clone();
            let mut odd = false;
            match gen::draw(4) {
                0 => sum[gen::draw(64) as usize] ^= 1 << gen::draw(8),
                1 => sum = gen::blake2b512(b"another archive"),
                // the right checksum, copied without its last hex digit: 127 digits are not it
                2 => odd = true,
                _ => sum.reverse(),
            }
            let mut h = gen::hex(&sum);
            if odd {
                h.pop();
            }
            verify_header = Some(h);
        }
        _ => {
            if gen::chance(1, 2) {
                verify_header = Some(gen::hex(&ra.header_checksum));
            }
        }
    }
    // the output as found
    let via_symlink = output_kind == "blockdev-small-via-symlink";
    let racing = output_kind == "absent+concurrent-creator";
    let prior: Option<Vec<u8>> = match output_kind {
        "absent" | "absent+concurrent-creator" => None,
        "file" => Some(gen::gen_seed_data(&m.source, m.spec.cfg.expected_avg()).1),
        "blockdev-large" => {
            let mut p = gen::gen_seed_data(&m.source, m.spec.cfg.expected_avg()).1;
            p.resize(src_len + gen::draw(512) as usize, 0xDD);
            Some(p)
        }
        _ => {
            let mut p = gen::gen_seed_data(&m.source, m.spec.cfg.expected_avg()).1;
            if src_len == 0 {
                // nothing is smaller than an empty source: this cell degenerates to "large"
                p.resize(16, 0xDD);
            } else {
                p.resize(gen::draw(src_len as u32) as usize, 0xDD);
            }
            Some(p)
        }
    };
    let blockdev = output_kind.starts_with("blockdev");
    let dev_too_small = output_kind.starts_with("blockdev-small") && src_len > 0;
    let out_name = if via_symlink { "outlink" } else { "out.bin" };
    match &prior {
        Some(p) => scen::put_file("out.bin", p),
        None => scen::quiet(|| {
            let _ = std::fs::remove_file("out.bin");
        }),
    }
    scen::quiet(|| {
        let _ = std::fs::remove_file("a.cba");
        let _ = std::fs::remove_file("outlink");
        if via_symlink {
            let _ = std::os::unix::fs::symlink("out.bin", "outlink");
        }
    });
    let server = if http {
        Some(scen::serve(Arc::new(presented.clone())))
    } else {
        scen::put_file("a.cba", &presented);
        None
    };
    sys::with(|s| {
        let p = s.path_mut("out.bin");
        p.fake_blockdev = blockdev;
        p.capture = false;
        s.log.clear();
    });
    let mut opts = CloneOpts {
        http,
        force_create: flag == "force-create",
        seed_output: flag == "seed-output",
        verify_header: verify_header.clone(),
        buffers: gen::gen_buffers(),
        verify_output: gen::chance(1, 6) && !blockdev,
        ..Default::default()
    };
    // a seed does not change which refusal applies. One clone in four has one; where the output
    // exists as a regular file the seed may be the output itself
    let seed_kind = if gen::chance(1, 4) { if output_kind == "file" && gen::chance(1, 2) { "output-itself" } else { "file" } } else { "none" };
    match seed_kind {
        "file" => {
            scen::put_file("seed0.bin", &gen::gen_seed_data(&m.source, m.spec.cfg.expected_avg()).1);
            opts.seeds.push("seed0.bin".into());
        }
        "output-itself" => opts.seeds.push(out_name.to_string()),
        _ => {}
    }
    // over HTTP, one run in four: the first requests are refused (the header cannot be fetched),
    // as often as --http-retry-count allows and once more, then the server answers again. The
    // clone fails or, if it somehow gets through, the refusals still apply.
    let mut flaky = false;
    if http && gen::chance(1, 4) {
        opts.retries = 1 + gen::draw(2);
        let k = opts.retries as usize + 1 + gen::draw(2) as usize;
        if let Some(s) = &server {
            s.lock().unwrap().script = vec![Some(crate::net::NetFault::Refuse); k];
        }
        flaky = true;
        simkit::count("probe:header-requests-refused-then-answered");
    }
    scen::set_stdin(None);
    scen::draw_schedule();
    let creator = if racing { Some(spawn_creator("out.bin")) } else { None };
    let r = scen::run(&scen::clone_args("a.cba", out_name, &opts));
    let creator_won = creator.map(|c| c.load(std::sync::atomic::Ordering::Relaxed)).unwrap_or(false);
    if server.is_some() {
        crate::net::uninstall();
    }
    let after = scen::get_file("out.bin");
    let (opened, touched) = sys::with(|s| {
        // "no output file is created": an open that may create the path while it is absent
        let opened = s.events_for("out.bin").any(|e| e.op == sys::Op::Open && e.a & libc::O_CREAT as i64 != 0 && e.ret >= 0);
        let touched = s.events_for("out.bin").any(|e| (e.op == sys::Op::Write && e.ret > 0) || (e.op == sys::Op::Truncate && e.ret == 0) || (e.op == sys::Op::Open && e.a & libc::O_TRUNC as i64 != 0 && e.ret >= 0));
        s.path_mut("out.bin").fake_blockdev = false;
        (opened, touched)
    });
    let desc = json!({
        "command": "clone", "transport": if http { "http" } else { "local" }, "archive": archive_kind, "flag": flag, "output": output_kind,
        "prior_len": prior.as_ref().map(|p| p.len()), "source_len": src_len, "creator_won": creator_won, "seed": seed_kind, "header_requests_refused_first": flaky, "verify_header": verify_header.is_some(), "archive_options": m.desc,
    });
    if ctx.want_sample {
        ctx.verdict.sample = Some(desc.clone());
    }
    simkit::with(|s| s.event("c14-cell", cell as u64, 0));
    // which refusal, if any, does the statement name for this cell?
    let archive_refusal = matches!(archive_kind, "random-bytes" | "header-bit-flip" | "truncated-header" | "verify-header-mismatch" | "empty-file" | "inconsistent-dictionary");
    // a concurrent exclusive creator that won the race made the output exist: what it wrote is
    // the "prior content" that a refusing (neither -f nor --seed-output) clone must leave alone
    let prior = if creator_won { Some(MARKER.to_vec()) } else { prior };
    let (opened, touched) = if creator_won {
        // the creator's own open/write went through the seam too: judge by content only
        (false, false)
    } else {
        (opened, touched)
    };
    if creator_won {
        simkit::count("refusal:concurrent-creator");
    }
    let exists_refusal = prior.is_some() && flag == "none";
    let size_refusal = dev_too_small;
    let refusal = archive_refusal || exists_refusal || size_refusal;
    if matches!(r.outcome, Outcome::StepBudget | Outcome::Deadlock) {
        ctx.fail(&format!("clone-outcome:{}", r.outcome.class()), format!("clone ended with {}; {}", r.outcome.short(), desc));
        return;
    }
    // O4 (DESIGN.md section 6): a seed that is the output grows while it is scanned; the
    // chunker stream is polled again after it delivered its last chunk, reads the new bytes and
    // panics on its stale scan position. A bita defect, but of none of the listed properties
    // (it is neither a refusal nor a success): not judged here.
    if seed_kind == "output-itself" && matches!(&r.outcome, Outcome::Panic(p) if p.contains("bitar/src/chunker/")) {
        simkit::count("observation:O4-chunker-polled-again-on-grown-seed");
        return;
    }
    if refusal {
        if r.outcome.is_success() {
            ctx.fail(
                &format!("refusal-succeeded:{}", if archive_refusal { archive_kind } else if exists_refusal { "output-exists" } else { "device-too-small" }),
                format!("clone reported success where it must refuse; {}", desc),
            );
            return;
        }
        if after != prior {
            ctx.fail(
                "refusal-changed-output",
                format!("clone refused ({}) but the output changed: before {:?}, after {:?}; {}", r.outcome.short(), prior.as_ref().map(|p| gen::fp(p)), after.as_ref().map(|p| gen::fp(p)), desc),
            );
            return;
        }
        if touched {
            ctx.fail("refusal-touched-output", format!("clone refused ({}) but wrote to / truncated the output; {}", r.outcome.short(), desc));
            return;
        }
        if archive_refusal && opened && prior.is_none() {
            ctx.fail("refusal-created-output", format!("clone refused the archive ({}) but had created the output path on the way (even if it is gone again); {}", r.outcome.short(), desc));
            return;
        }
        simkit::count(if archive_refusal {
            "refusal:archive"
        } else if exists_refusal {
            "refusal:output-exists"
        } else {
            "refusal:device-too-small"
        });
    } else if !r.outcome.is_success() {
        if flaky {
            // the header could not be fetched within the retry budget: a legitimate failure
            simkit::count("flaky-server-failed-the-clone");
            ctx.verdict.nontrivial = true;
            ctx.verdict.shape = cell as u64 ^ (1 << 30);
            return;
        }
        ctx.fail(&format!("clone-outcome:{}", r.outcome.class()), format!("a clone that must proceed ended with {}; {}", r.outcome.short(), desc));
        return;
    } else {
        let out = after.unwrap_or_default();
        if out.len() < src_len || out[..src_len] != m.source[..] {
            ctx.fail("output-differs", format!("clone succeeded with a wrong output; {}", desc));
            return;
        }
        simkit::count("proceeded");
    }
    ctx.verdict.nontrivial = true;
    ctx.verdict.shape = cell as u64;
}
