//! C05 — an interrupted clone can always be completed by re-running in place, and a run whose
//! write failed never reports success.
//!
//! Per run: one clone scenario (seeds, prior output, file or faked block device, local or
//! HTTP). An uninterrupted execution counts W, the number of write(2) calls on the output.
//! Crash family: for every k in 0..W (sampled when W > 20) the clone is executed with
//! process death at the k-th write, torn after a drawn prefix (0, 1, mid, len-1, len), under a
//! drawn schedule (what tokio had not flushed yet is lost); then 0..2 further crashed
//! re-runs; then a fault-free `bita clone --seed-output`, which must succeed and yield the
//! source. Error family: the k-th write (including the last one) fails with ENOSPC / EIO,
//! possibly after a short prefix: the run must not report success, and the re-run completes.
//! Benign faults (short writes, EINTR) must not change anything.

use std::sync::Arc;

use serde_json::json;

use crate::cli::Outcome;
use crate::gen;
use crate::harness::Ctx;
use crate::props::clonefam::{self, Fam, Which};
use crate::scen::{self, CloneOpts};
use crate::sys::{self, FaultAction, Op};

struct Env<'a> {
    f: &'a Fam,
    seed_names: Vec<String>,
}

fn setup(f: &Fam) -> Env<'_> {
    let mut seed_names = Vec::new();
    for (i, (_, data)) in f.seeds.iter().enumerate() {
        let name = format!("seed{}.bin", i);
        scen::put_file(&name, data);
        seed_names.push(name);
    }
    if f.http {
        scen::quiet(|| {
            let _ = std::fs::remove_file("a.cba");
        });
    } else {
        scen::put_file("a.cba", &f.made.archive);
    }
    Env { f, seed_names }
}

fn reset_output(f: &Fam) {
    match &f.prior {
        Some(p) => scen::put_file("out.bin", p),
        None => scen::quiet(|| {
            let _ = std::fs::remove_file("out.bin");
        }),
    }
}

/// run one clone; returns (outcome, number of output writes, faults that fired)
fn clone_once(env: &Env, seed_output: bool, use_seeds: bool, verify_output: bool, fault: Option<(u64, FaultAction)>) -> (Outcome, u64, usize) {
    clone_once_op(env, seed_output, use_seeds, verify_output, fault, Op::Write)
}

fn clone_once_op(env: &Env, seed_output: bool, use_seeds: bool, verify_output: bool, fault: Option<(u64, FaultAction)>, fault_op: Op) -> (Outcome, u64, usize) {
    let f = env.f;
    let exists = scen::exists("out.bin");
    let opts = CloneOpts {
        http: f.http,
        seeds: if use_seeds { env.seed_names.clone() } else { Vec::new() },
        seed_output,
        force_create: !seed_output && exists,
        verify_output,
        buffers: gen::gen_buffers(),
        ..Default::default()
    };
    let server = if f.http { Some(scen::serve(Arc::new(f.made.archive.clone()))) } else { None };
    sys::with(|s| {
        s.crashed = false;
        s.faults.clear();
        s.fault_fired.clear();
        s.log.clear();
        let p = s.path_mut("out.bin");
        p.fake_blockdev = f.blockdev;
        p.capture = false;
        p.writes = 0;
        p.reads = 0;
        if let Some((k, a)) = &fault {
            s.add_fault("out.bin", fault_op, *k, a.clone());
        }
    });
    simkit::with(|s| s.crashed = false);
    scen::set_stdin(None);
    scen::draw_schedule();
    let r = scen::run(&scen::clone_args("a.cba", "out.bin", &opts));
    if server.is_some() {
        crate::net::uninstall();
    }
    let (writes, fired) = sys::with(|s| {
        let w = s.events_for("out.bin").filter(|e| e.op == Op::Write).count() as u64;
        let fired = s.fault_fired.len();
        s.crashed = false;
        s.faults.clear();
        s.path_mut("out.bin").fake_blockdev = false;
        (w, fired)
    });
    simkit::with(|s| s.crashed = false);
    (r.outcome, writes, fired)
}

fn tear(len_hint: usize) -> usize {
    // prefix of the torn write: 0, 1, mid, len-1, len (len unknown here: usize::MAX = all)
    match gen::draw(5) {
        0 => usize::MAX,
        1 => 0,
        2 => 1,
        3 => (len_hint / 2).max(1),
        _ => len_hint.saturating_sub(1).max(1),
    }
}

/// Library level: the same two families on a simulated output file (`CloneOutput<SimFile>`):
/// the k-th write call dies after a drawn prefix / fails, then `reorder_in_place` + clone on
/// what is left.
fn run_l1(ctx: &mut Ctx, f: &Fam) {
    use crate::simio::{FileOp, SimFile, SimSource, WriteFault};
    let src = f.made.source.clone();
    let prior = f.prior.clone().unwrap_or_default();
    let archive = f.made.archive.clone();
    let seeds = || -> Vec<SimSource> { f.seeds.iter().map(|(_, d)| SimSource::drawn(d.clone())).collect() };
    let clone_on = |file: &SimFile, reorder: bool, with_seeds: bool| -> Outcome {
        scen::draw_schedule();
        let r = scen::run_lib_clone_local(archive.clone(), file.clone(), if with_seeds { seeds() } else { Vec::new() }, reorder);
        let o = scen::lib_outcome(&r);
        simkit::with(|s| s.crashed = false);
        file.with(|g| g.crashed = false);
        o
    };
    // uninterrupted run: W
    let base = SimFile::new(prior.clone());
    base.with(|g| g.fixed_size = f.blockdev);
    if !clone_on(&base, f.seed_output, true).is_success() {
        simkit::count("inconclusive-baseline-failed");
        return;
    }
    let w = base.ops().iter().filter(|o| matches!(o, FileOp::Write { .. })).count() as u64;
    let avg = f.made.spec.cfg.expected_avg();
    let error_family = gen::chance(1, 3);
    let ks: Vec<u64> = if w <= 24 { (0..w).collect() } else { (0..24).map(|_| gen::draw(w as u32) as u64).collect() };
    let mut fired = 0u64;
    for &k in &ks {
        let file = SimFile::new(prior.clone());
        file.with(|g| g.fixed_size = f.blockdev);
        let (fault, what) = if error_family {
            let kind = *gen::t(|t| t.pick(&[std::io::ErrorKind::StorageFull, std::io::ErrorKind::Other, std::io::ErrorKind::BrokenPipe, std::io::ErrorKind::Interrupted]));
            if gen::chance(1, 3) {
                let p = 1 + gen::draw(avg.max(1) as u32) as usize;
                (WriteFault::ShortThenError(p, kind), format!("write call {} takes {} bytes, the next one fails with {:?}", k, p, kind))
            } else {
                (WriteFault::Error(kind), format!("write call {} fails with {:?}", k, kind))
            }
        } else {
            let p = tear(avg);
            (WriteFault::Crash(p), format!("process death at write call {} after {} bytes", k, if p == usize::MAX { "all".to_string() } else { p.to_string() }))
        };
        file.with(|g| g.write_fault = Some((k, fault)));
        let o1 = clone_on(&file, f.seed_output, true);
        let hit = file.with(|g| g.write_fault.is_none() && g.fail_next_write.is_none());
        file.with(|g| g.fail_next_write = None);
        let desc = json!({"level": "lib", "scenario": f.desc, "writes_uninterrupted": w, "fault": what, "outcome": o1.short()});
        if matches!(o1, Outcome::Panic(_) | Outcome::StepBudget | Outcome::Deadlock) {
            ctx.fail(&format!("l1-faulted-outcome:{}", o1.class()), format!("library clone with a failing write ended with {}; {}", o1.short(), desc));
            return;
        }
        if hit {
            fired += 1;
            if error_family && o1.is_success() {
                ctx.fail("l1-failed-write-reported-success", format!("a write to the output failed, yet the library clone returned Ok; {}", desc));
                return;
            }
        }
        file.with(|g| g.write_fault = None);
        // re-run in place on what is left
        let o2 = clone_on(&file, true, gen::chance(1, 2));
        if !o2.is_success() {
            ctx.fail(&format!("l1-rerun-failed:{}", o2.class()), format!("the fault-free library re-run in place ended with {}; {}", o2.short(), desc));
            return;
        }
        let out = file.contents();
        if out.len() < src.len() || out[..src.len()] != src[..] {
            ctx.fail("l1-rerun-output-differs", format!("after the fault-free re-run in place the output differs from the source at byte {:?}; {}", gen::first_diff(&out[..out.len().min(src.len())], &src), desc));
            return;
        }
    }
    // one read of the output fails once (EIO on a sector, EINTR) while the prior content is
    // re-ordered in place: whatever the clone makes of it, Ok means the source is there
    if f.seed_output && error_family {
        let read_ops: Vec<usize> = base.ops().iter().filter_map(|o| if let FileOp::Read { len, .. } = o { Some(*len) } else { None }).collect();
        let reads = read_ops.len() as u64;
        // the scan of the old content ends with a read that returns nothing; the reads after it
        // belong to the re-ordering (a chunk read to be copied, or to be kept in memory while
        // its place is overwritten) -- few among many, so half of the faults are aimed at them
        let after_scan: Vec<u64> = match read_ops.iter().position(|l| *l == 0) {
            Some(p) => ((p as u64 + 1)..reads).collect(),
            None => Vec::new(),
        };
        for _ in 0..reads.min(6) {
            let file = SimFile::new(prior.clone());
            file.with(|g| g.fixed_size = f.blockdev);
            let k = if !after_scan.is_empty() && gen::chance(1, 2) {
                simkit::count("probe:read-fault-aimed-at-the-re-ordering");
                after_scan[gen::draw(after_scan.len() as u32) as usize]
            } else {
                gen::draw(reads as u32) as u64
            };
            let kind = *gen::t(|t| t.pick(&[std::io::ErrorKind::Other, std::io::ErrorKind::Interrupted, std::io::ErrorKind::UnexpectedEof]));
            file.with(|g| g.read_fault = Some((k, kind)));
            let o1 = clone_on(&file, true, true);
            let hit = file.with(|g| g.read_fault.is_none());
            file.with(|g| g.read_fault = None);
            let desc = json!({"level": "lib", "scenario": f.desc, "fault": format!("read call {} of the output fails with {:?}", k, kind), "outcome": o1.short()});
            if matches!(o1, Outcome::Panic(_) | Outcome::StepBudget | Outcome::Deadlock) {
                ctx.fail(&format!("l1-faulted-outcome:{}", o1.class()), format!("library clone with a failing read of the output ended with {}; {}", o1.short(), desc));
                return;
            }
            if hit {
                fired += 1;
                let out = file.contents();
                if o1.is_success() && (out.len() < src.len() || out[..src.len()] != src[..]) {
                    ctx.fail("l1-failed-read-reported-success", format!("a read of the output failed during the in-place update, the library clone returned Ok and the output differs from the source at byte {:?}; {}", gen::first_diff(&out[..out.len().min(src.len())], &src), desc));
                    return;
                }
            }
            let o2 = clone_on(&file, true, gen::chance(1, 2));
            let out = file.contents();
            if !o2.is_success() || out.len() < src.len() || out[..src.len()] != src[..] {
                ctx.fail("l1-rerun-output-differs", format!("after a failed read and a fault-free re-run in place ({}) the output is not the source; {}", o2.short(), desc));
                return;
            }
        }
    }
    simkit::with(|s| s.count_n("crash-points", ks.len() as u64));
    if ctx.want_sample {
        ctx.verdict.sample = Some(json!({"level": "lib", "scenario": f.desc, "writes_uninterrupted": w, "crash_points": ks, "family": if error_family { "write-error" } else { "crash" }}));
    }
    ctx.verdict.nontrivial = fired > 0 && w >= 3;
    ctx.verdict.shape = w ^ ((ks.len() as u64) << 24) ^ ((error_family as u64) << 40) ^ (1 << 50);
}

pub fn run(ctx: &mut Ctx) {
    let Some(mut f) = clonefam::generate(ctx, Which::C06) else { return };
    if gen::chance(1, 4) && !f.http {
        f.level2 = false;
        f.stdin_at = None;
        if f.made.spec.hash_len < 8 && clonefam::truncated_twins(&f.ra) {
            return;
        }
        return run_l1(ctx, &f);
    }
    f.level2 = true;
    f.stdin_at = None;
    let f = f;
    if f.made.spec.hash_len < 8 && clonefam::truncated_twins(&f.ra) {
        simkit::count("hash-collision-exempt");
        return;
    }
    let src = f.made.source.clone();
    let avg = f.made.spec.cfg.expected_avg();
    let env = setup(&f);
    let error_family = gen::chance(1, 3);
    // uninterrupted execution: W
    reset_output(&f);
    let (o0, w, _) = clone_once(&env, f.seed_output, true, false, None);
    if !o0.is_success() {
        // not this property's business (C02/C03 report it)
        simkit::count("inconclusive-baseline-failed");
        return;
    }
    let check_final = |ctx: &mut Ctx, what: &str, desc: &serde_json::Value| -> bool {
        let out = scen::get_file("out.bin").unwrap_or_default();
        let ok = if f.blockdev { out.len() >= src.len() && out[..src.len()] == src[..] } else { out == *src };
        if !ok {
            ctx.fail(
                &format!("{}-output-differs", what),
                format!("after the final fault-free re-run in place the output differs from the source at byte {:?} ({} vs {}); {}", gen::first_diff(&out[..out.len().min(src.len())], &src), gen::fp(&out), gen::fp(&src), desc),
            );
        }
        ok
    };
    let ks: Vec<u64> = if w <= 20 {
        (0..w).collect()
    } else {
        let mut v: Vec<u64> = (0..18).map(|_| gen::draw(w as u32) as u64).collect();
        v.push(0);
        v.push(w - 1);
        v.sort();
        v.dedup();
        v
    };
    let mut fired_total = 0usize;
    let mut mid_crashes = 0u64;
    // one more crash point per scenario: after the last write has landed, at the final resize
    // (regular files only: devices are not resized)
    let mut ks = ks;
    // (in the error family: the final resize fails with an error)
    if !f.blockdev {
        ks.push(u64::MAX);
    }
    for &k in &ks {
        if ctx.failed() {
            return;
        }
        reset_output(&f);
        if !error_family {
            // ---- crash family
            let p = tear(avg);
            let (o1, _, fired) = if k == u64::MAX {
                clone_once_op(&env, f.seed_output, true, false, Some((0, FaultAction::Crash(0))), Op::Truncate)
            } else {
                clone_once(&env, f.seed_output, true, false, Some((k, FaultAction::Crash(p))))
            };
            fired_total += fired;
            let mut history = vec![if k == u64::MAX {
                format!("crash at the final resize (all writes landed) -> {}", o1.short())
            } else {
                format!("crash at write {} torn after {} -> {}", k, if p == usize::MAX { "all".to_string() } else { p.to_string() }, o1.short())
            }];
            if fired > 0 && k > 0 && k != u64::MAX && k + 1 < w {
                mid_crashes += 1;
            }
            // further crashed re-runs
            let more = gen::t(|t| t.weighted(&[5, 2, 1]));
            for _ in 0..more {
                let k2 = gen::draw(w.max(1) as u32) as u64;
                let p2 = tear(avg);
                let (o2, _, fired2) = clone_once(&env, true, gen::chance(1, 2), false, Some((k2, FaultAction::Crash(p2))));
                fired_total += fired2;
                history.push(format!("re-run in place, crash at write {} torn after {} -> {}", k2, if p2 == usize::MAX { "all".to_string() } else { p2.to_string() }, o2.short()));
                if matches!(o2, Outcome::Panic(_) | Outcome::StepBudget | Outcome::Deadlock) {
                    ctx.fail(&format!("rerun-outcome:{}", o2.class()), format!("a re-run in place on a partially written output ended with {}; history {:?}; {}", o2.short(), history, f.desc));
                    return;
                }
            }
            // faults stop: the re-run in place must complete
            let verify = gen::chance(1, 3) && !f.blockdev;
            let (o3, _, _) = clone_once(&env, true, gen::chance(1, 2), verify, None);
            let desc = json!({"scenario": f.desc, "writes_uninterrupted": w, "history": history, "final_verify_output": verify});
            if !o3.is_success() {
                ctx.fail(&format!("rerun-failed:{}", o3.class()), format!("the fault-free re-run with the output as seed ended with {}; {}", o3.short(), desc));
                return;
            }
            if !check_final(ctx, "crash", &desc) {
                return;
            }
        } else if k == u64::MAX {
            // ---- error family, the final resize: every write landed, ftruncate fails (a file the
            // system will not resize, EIO, EPERM on a sealed or immutable file). A clone that
            // says "done" must have left exactly the source; otherwise the re-run completes it.
            let errno = *gen::t(|t| t.pick(&[libc::EIO, libc::EPERM, libc::EFBIG, libc::ENOSPC]));
            let (o1, _, fired) = clone_once_op(&env, f.seed_output, true, false, Some((0, FaultAction::Errno(errno))), Op::Truncate);
            fired_total += fired;
            let desc = json!({"scenario": f.desc, "writes_uninterrupted": w, "fault": format!("ftruncate fails with errno {}", errno), "outcome": o1.short()});
            if matches!(o1, Outcome::Panic(_) | Outcome::StepBudget | Outcome::Deadlock) {
                ctx.fail(&format!("faulted-outcome:{}", o1.class()), format!("a clone whose final resize fails ended with {}; {}", o1.short(), desc));
                return;
            }
            if fired > 0 {
                simkit::count("fault:ResizeErrno");
                if o1.is_success() && scen::get_file("out.bin").unwrap_or_default() != *src {
                    ctx.fail("failed-resize-reported-success", format!("the final resize of the output failed (errno {}) yet the clone exited 0 and the output is not the source ({} bytes, the source has {}); {}", errno, scen::get_file("out.bin").map(|o| o.len()).unwrap_or(0), src.len(), desc));
                    return;
                }
            }
            let (o3, _, _) = clone_once(&env, true, gen::chance(1, 2), false, None);
            if !o3.is_success() {
                ctx.fail(&format!("rerun-failed:{}", o3.class()), format!("the fault-free re-run with the output as seed ended with {}; {}", o3.short(), desc));
                return;
            }
            if !check_final(ctx, "error", &desc) {
                return;
            }
        } else {
            // ---- error family
            let errno = *gen::t(|t| t.pick(&[libc::ENOSPC, libc::EIO]));
            let (action, benign) = match gen::t(|t| t.weighted(&[4, 3, 1, 1])) {
                0 => (FaultAction::Errno(errno), false),
                1 => (FaultAction::PartialThenErrno(1 + gen::draw(avg.max(1) as u32) as usize, errno), false),
                2 => (FaultAction::Short(1 + gen::draw(avg.max(1) as u32) as usize), true),
                _ => (FaultAction::Eintr, true),
            };
            let verify = gen::chance(1, 3) && !f.blockdev;
            let (o1, _, fired) = clone_once(&env, f.seed_output, true, verify, Some((k, action.clone())));
            fired_total += fired;
            let desc = json!({"scenario": f.desc, "writes_uninterrupted": w, "fault": format!("{:?} at write {} of {}", action, k, w), "verify_output": verify, "outcome": o1.short()});
            if matches!(o1, Outcome::Panic(_) | Outcome::StepBudget | Outcome::Deadlock) {
                ctx.fail(&format!("faulted-outcome:{}", o1.class()), format!("a clone with a failing write ended with {}; {}", o1.short(), desc));
                return;
            }
            if fired > 0 && !benign {
                // PartialThenErrno whose prefix covers the whole buffer surfaces as an error on
                // the next write; if there is no next write nothing failed
                let surfaced = sys::with(|s| s.fault_fired.len());
                let _ = surfaced;
                if o1.is_success() {
                    let out = scen::get_file("out.bin").unwrap_or_default();
                    let complete = out.len() >= src.len() && out[..src.len()] == src[..];
                    let is_last = k + 1 >= w;
                    if !complete {
                        ctx.fail(
                            if is_last { "failed-last-write-reported-success" } else { "failed-write-reported-success" },
                            format!("write {} of {} to the output failed ({:?}) yet the clone exited 0; the output differs from the source at byte {:?}; {}", k, w, action, gen::first_diff(&out[..out.len().min(src.len())], &src), desc),
                        );
                        return;
                    }
                    // the failing write was a partial one that happened to carry everything
                    simkit::count("partial-write-carried-all");
                }
            }
            if benign && fired > 0 {
                if !o1.is_success() {
                    ctx.fail("benign-fault-failed", format!("a legal short write / EINTR made the clone fail with {}; {}", o1.short(), desc));
                    return;
                }
                if !check_final(ctx, "benign", &desc) {
                    return;
                }
                continue;
            }
            let (o3, _, _) = clone_once(&env, true, gen::chance(1, 2), false, None);
            if !o3.is_success() {
                ctx.fail(&format!("rerun-failed:{}", o3.class()), format!("the fault-free re-run with the output as seed ended with {}; {}", o3.short(), desc));
                return;
            }
            if !check_final(ctx, "error", &desc) {
                return;
            }
        }
    }
    // error family, in place: one read of the output fails with EIO (a bad sector) -- while the
    // old content is scanned or while it is re-ordered. The clone may fail; exit 0 means the
    // source is there; the re-run completes it.
    if error_family && f.seed_output && !ctx.failed() {
        reset_output(&f);
        // (two thirds with short reads at the seam: a scan of one or two large reads has no
        // "middle" for a fault to land in -- nothing buffered, nothing read ahead)
        let short_before = sys::with(|s| s.short_read_pct);
        if gen::chance(2, 3) {
            sys::with(|s| s.short_read_pct = 80);
        }
        let (o0, _, _) = clone_once(&env, true, true, false, None);
        let read_rets: Vec<i64> = sys::with(|s| s.events_for("out.bin").filter(|e| e.op == Op::Read).map(|e| e.ret).collect());
        let reads = read_rets.len() as u64;
        // (as at the library level: half of the faults go to the reads that follow the scan)
        let after_scan: Vec<u64> = match read_rets.iter().position(|r| *r == 0) {
            Some(p) => ((p as u64 + 1)..reads).filter(|i| read_rets[*i as usize] > 0).collect(),
            None => Vec::new(),
        };
        if o0.is_success() && reads > 0 {
            for _ in 0..reads.min(5) {
                reset_output(&f);
                let k = if !after_scan.is_empty() && gen::chance(1, 2) {
                    simkit::count("probe:read-fault-aimed-at-the-re-ordering");
                    after_scan[gen::draw(after_scan.len() as u32) as usize]
                } else {
                    gen::draw(reads as u32) as u64
                };
                let (o1, _, fired) = clone_once_op(&env, true, true, false, Some((k, FaultAction::Errno(libc::EIO))), Op::Read);
                fired_total += fired;
                let desc = json!({"scenario": f.desc, "fault": format!("read call {} of {} on the output fails with EIO", k, reads), "outcome": o1.short()});
                if matches!(o1, Outcome::Panic(_) | Outcome::StepBudget | Outcome::Deadlock) {
                    ctx.fail(&format!("faulted-outcome:{}", o1.class()), format!("an in-place clone with a failing read of the output ended with {}; {}", o1.short(), desc));
                    return;
                }
                if fired > 0 {
                    simkit::count(if o1.is_success() { "probe:output-read-fault:clone-succeeded" } else { "probe:output-read-fault:clone-failed" });
                }
                if fired > 0 && o1.is_success() {
                    let out = scen::get_file("out.bin").unwrap_or_default();
                    if out.len() < src.len() || out[..src.len()] != src[..] {
                        ctx.fail("failed-read-reported-success", format!("a read of the output failed with EIO during the in-place update, yet the clone exited 0 and the output differs from the source at byte {:?}; {}", gen::first_diff(&out[..out.len().min(src.len())], &src), desc));
                        return;
                    }
                }
                let (o3, _, _) = clone_once(&env, true, gen::chance(1, 2), false, None);
                if !o3.is_success() {
                    ctx.fail(&format!("rerun-failed:{}", o3.class()), format!("the fault-free re-run with the output as seed ended with {}; {}", o3.short(), desc));
                    return;
                }
                if !check_final(ctx, "error", &desc) {
                    return;
                }
            }
        }
        sys::with(|s| s.short_read_pct = short_before);
    }
    if ctx.want_sample {
        ctx.verdict.sample = Some(json!({"scenario": f.desc, "writes_uninterrupted": w, "crash_points": ks, "family": if error_family { "write-error" } else { "crash" }}));
    }
    simkit::with(|s| {
        s.count_n("crash-points", ks.len() as u64);
        s.count_n("mid-crashes", mid_crashes);
    });
    ctx.verdict.nontrivial = fired_total > 0 && w >= 3;
    ctx.verdict.shape = w ^ ((ks.len() as u64) << 24) ^ ((error_family as u64) << 40) ^ ((f.blockdev as u64) << 41) ^ ((f.seed_output as u64) << 42);
}
