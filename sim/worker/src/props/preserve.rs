//! C03's during-the-run clause: "no reusable chunk is destroyed before it has been copied or
//! buffered", decided over the ordered log of reads and writes on the output.
//!
//! A *reusable* chunk is one that the scan of the prior output finds (at `locs`) and that the
//! source needs (at `dests`). While one of its destinations does not hold it yet, the chunk must
//! survive somewhere: an intact copy at one of its known locations (prior locations and
//! destinations), or in memory -- it has been read in full, from an intact copy, since the scan
//! ended. The monitor replays the log on a model of the file and evaluates this after every
//! write. It is deliberately lenient where bita is free: any read that covers an intact copy
//! counts as buffering (however large the read), and "buffered" is never taken back.

use std::collections::BTreeSet;

#[derive(Clone, Debug)]
pub enum OutOp {
    Read { pos: u64, len: usize },
    Write { pos: u64, data: Vec<u8> },
}

pub struct Reusable {
    /// for messages: descriptor index / identity
    pub id: usize,
    pub content: Vec<u8>,
    /// where the scan of the prior output found it
    pub locs: Vec<u64>,
    /// where the source needs it
    pub dests: Vec<u64>,
}

pub struct Violation {
    pub op_index: usize,
    pub text: String,
}

struct Loc {
    start: u64,
    end: u64,
    chunk: usize,
    is_dest: bool,
    intact: bool,
}

/// `reads_count_from_start`: there is no scan in the log (the indexes were handed over), so
/// every read may buffer; otherwise reads count once the scan has seen the end of the file
/// (its first zero-length read).
pub fn monitor(prior: &[u8], ops: &[OutOp], chunks: &[Reusable], reads_count_from_start: bool) -> (Option<Violation>, u64) {
    let mut file = prior.to_vec();
    let mut locs: Vec<Loc> = Vec::new();
    for (ci, c) in chunks.iter().enumerate() {
        if c.content.is_empty() {
            continue;
        }
        let mut seen = BTreeSet::new();
        for &d in &c.dests {
            if seen.insert(d) {
                locs.push(Loc { start: d, end: d + c.content.len() as u64, chunk: ci, is_dest: true, intact: false });
            }
        }
        for &l in &c.locs {
            if seen.insert(l) {
                locs.push(Loc { start: l, end: l + c.content.len() as u64, chunk: ci, is_dest: false, intact: false });
            }
        }
    }
    locs.sort_by_key(|l| (l.start, l.end));
    let max_size = chunks.iter().map(|c| c.content.len() as u64).max().unwrap_or(0);
    let holds = |file: &[u8], l: &Loc, c: &Reusable| -> bool { (l.end as usize) <= file.len() && file[l.start as usize..l.end as usize] == c.content[..] };
    let mut n_intact = vec![0u32; chunks.len()];
    let mut n_pending = vec![0u32; chunks.len()];
    for l in locs.iter_mut() {
        l.intact = holds(&file, l, &chunks[l.chunk]);
        if l.intact {
            n_intact[l.chunk] += 1;
        } else if l.is_dest {
            n_pending[l.chunk] += 1;
        }
    }
    let mut buffered = vec![false; chunks.len()];
    let mut scan_done = reads_count_from_start;
    let mut run: Option<(u64, u64)> = None;
    let mut checks = 0u64;
    // indexes of locs overlapping [a, b)
    let overlapping = |locs: &Vec<Loc>, a: u64, b: u64| -> std::ops::Range<usize> {
        let lo = locs.partition_point(|l| l.start + max_size < a.saturating_add(1));
        let hi = locs.partition_point(|l| l.start < b);
        lo..hi.max(lo)
    };
    for (oi, op) in ops.iter().enumerate() {
        match op {
            OutOp::Read { pos, len } => {
                if *len == 0 {
                    scan_done = true;
                    run = None;
                    continue;
                }
                let end = pos + *len as u64;
                run = match run {
                    Some((s, e)) if e == *pos => Some((s, end)),
                    _ => Some((*pos, end)),
                };
                if !scan_done {
                    continue;
                }
                let (rs, re) = run.unwrap();
                for i in overlapping(&locs, *pos, end) {
                    let l = &locs[i];
                    if l.intact && l.start >= rs && l.end <= re && l.end > *pos {
                        buffered[l.chunk] = true;
                    }
                }
            }
            OutOp::Write { pos, data } => {
                run = None;
                if data.is_empty() {
                    continue;
                }
                let end = pos + data.len() as u64;
                if file.len() < end as usize {
                    file.resize(end as usize, 0);
                }
                file[*pos as usize..end as usize].copy_from_slice(data);
                let mut touched: Vec<usize> = Vec::new();
                for i in overlapping(&locs, *pos, end) {
                    if locs[i].end <= *pos {
                        continue;
                    }
                    let now = holds(&file, &locs[i], &chunks[locs[i].chunk]);
                    let l = &mut locs[i];
                    if now != l.intact {
                        if now {
                            n_intact[l.chunk] += 1;
                            if l.is_dest {
                                n_pending[l.chunk] -= 1;
                            }
                        } else {
                            n_intact[l.chunk] -= 1;
                            if l.is_dest {
                                n_pending[l.chunk] += 1;
                            }
                        }
                        l.intact = now;
                    }
                    touched.push(l.chunk);
                }
                for c in touched {
                    checks += 1;
                    if n_pending[c] > 0 && n_intact[c] == 0 && !buffered[c] {
                        let ch = &chunks[c];
                        return (
                            Some(Violation {
                                op_index: oi,
                                text: format!(
                                    "the write of {} bytes at {} (operation {} on the output) destroyed the last intact copy of reusable chunk {} ({} bytes; found by the scan at {:?}, needed at {:?}) before it was copied to all its destinations or read into memory",
                                    data.len(), pos, oi, ch.id, ch.content.len(), &ch.locs[..ch.locs.len().min(4)], &ch.dests[..ch.dests.len().min(4)]
                                ),
                            }),
                            checks,
                        );
                    }
                }
            }
        }
    }
    (None, checks)
}

#[cfg(test)]
mod tests {
    use super::*;
    fn ch(id: usize, content: &[u8], locs: &[u64], dests: &[u64]) -> Reusable {
        Reusable { id, content: content.to_vec(), locs: locs.to_vec(), dests: dests.to_vec() }
    }
    #[test]
    fn swap_needs_buffer() {
        // prior AB -> source BA, both 2 bytes
        let prior = b"aabb";
        let chunks = [ch(0, b"aa", &[0], &[2]), ch(1, b"bb", &[2], &[0])];
        // wrong: copy A over B without buffering B
        let bad = [OutOp::Read { pos: 0, len: 2 }, OutOp::Write { pos: 2, data: b"aa".to_vec() }];
        assert!(monitor(prior, &bad, &chunks, true).0.is_some());
        // right: buffer B first
        let good = [
            OutOp::Read { pos: 2, len: 2 },
            OutOp::Read { pos: 0, len: 2 },
            OutOp::Write { pos: 2, data: b"aa".to_vec() },
            OutOp::Write { pos: 0, data: b"bb".to_vec() },
        ];
        assert!(monitor(prior, &good, &chunks, true).0.is_none());
        // reads of the scan do not count
        let scan_then_bad = [OutOp::Read { pos: 0, len: 4 }, OutOp::Read { pos: 4, len: 0 }, OutOp::Read { pos: 0, len: 2 }, OutOp::Write { pos: 2, data: b"aa".to_vec() }];
        assert!(monitor(prior, &scan_then_bad, &chunks, false).0.is_some());
    }
}
