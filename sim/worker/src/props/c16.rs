//! C16 — clone writes no file but the output; compress leaves only the archive. Observed at
//! the process's file-opening system calls (the syscall seam) and by listings of the sandbox
//! before and after.

use serde_json::json;

use crate::gen;
use crate::harness::Ctx;
use crate::props::clonefam::{self, Which};
use crate::scen;
use crate::sys;

const WRITE_FLAGS: i64 = (libc::O_WRONLY | libc::O_RDWR | libc::O_CREAT | libc::O_TRUNC | libc::O_APPEND) as i64;

pub fn run(ctx: &mut Ctx) {
    if gen::chance(1, 3) {
        run_compress(ctx);
    } else if gen::chance(1, 16) {
        clone_into_missing_directory(ctx);
    } else {
        run_clone(ctx);
    }
}

/// every file and directory below the sandbox
fn tree() -> Vec<String> {
    fn walk(dir: &std::path::Path, out: &mut Vec<String>) {
        if let Ok(rd) = std::fs::read_dir(dir) {
            for e in rd.flatten() {
                let p = e.path();
                out.push(format!("{}{}", p.to_string_lossy().trim_start_matches("./"), if p.is_dir() { "/" } else { "" }));
                if p.is_dir() {
                    walk(&p, out);
                }
            }
        }
    }
    scen::quiet(|| {
        let mut v = Vec::new();
        walk(std::path::Path::new("."), &mut v);
        v.sort();
        v
    })
}

/// The output path lies in a directory that does not exist. Whatever the clone makes of that
/// (today: "Failed to open"), the only thing it may create is the output itself: no directory,
/// no side file, nothing removed.
fn clone_into_missing_directory(ctx: &mut Ctx) {
    let Some(m) = crate::props::c01::make_archive(ctx, 16 * 1024, false, None) else { return };
    let http = gen::chance(1, 3);
    let flag = *gen::t(|t| t.pick(&["--force-create", "--force-create", "--seed-output", ""]));
    // ... or in one that exists and is reached through a symbolic link and "..": the kernel
    // resolves lnk/.. to the parent of the link's target, not to the directory the link is in
    // ... or the output path names an existing directory (directly or through a link): today the
    // open fails; a clone that "helpfully" writes dir/<archive name> instead creates a file that
    // is not the output it was given (S16-B) ... or the path is ordinary and the *server* is odd:
    // it ignores Range and answers every request with 200 and the whole archive (S16-A: a clone
    // that then spools the archive to a side file)
    let out = *gen::t(|t| t.pick(&["nodir/out.bin", "new/sub/out.bin", "dir.d/deeper/out.bin", "lnk/../out.bin", "lnk/../out.bin", "dir.d", "dir.d/", "dirlnk", "out.bin"]));
    let through_link = out.starts_with("lnk/");
    let is_dir = matches!(out, "dir.d" | "dir.d/" | "dirlnk");
    let http = http || out == "out.bin";
    let range_ignored = out == "out.bin";
    scen::quiet(|| {
        let _ = std::fs::remove_file("a.cba");
        let _ = std::fs::create_dir_all("dir.d");
        if through_link {
            let _ = std::fs::create_dir_all("elsewhere/sub");
            let _ = std::os::unix::fs::symlink("elsewhere/sub", "lnk");
        }
        if out == "dirlnk" {
            let _ = std::os::unix::fs::symlink("dir.d", "dirlnk");
        }
        if out == "out.bin" {
            let _ = std::fs::remove_file("out.bin");
        }
    });
    let planted = is_dir && gen::chance(1, 2);
    if planted {
        // a file of the name such a clone would pick is already there
        scen::put_file("dir.d/a", b"earlier content of dir.d/a");
    }
    let server = if http {
        let s = scen::serve(std::sync::Arc::new(m.archive.clone()));
        if range_ignored {
            s.lock().unwrap().default_fault = Some(crate::net::NetFault::IgnoreRange);
        }
        Some(s)
    } else {
        scen::put_file("a.cba", &m.archive);
        None
    };
    let mut opts = scen::CloneOpts { http, buffers: gen::gen_buffers(), ..Default::default() };
    match flag {
        "--force-create" => opts.force_create = true,
        "--seed-output" => opts.seed_output = true,
        _ => {}
    }
    scen::set_stdin(None);
    scen::draw_schedule();
    let before = tree();
    sys::with(|s| s.log.clear());
    let r = scen::run(&scen::clone_args("a.cba", out, &opts));
    if server.is_some() {
        crate::net::uninstall();
    }
    let after = tree();
    let desc = json!({"clone_into_missing_directory": out, "flag": flag, "transport": if http { "http" } else { "local" }, "outcome": r.outcome.short(), "archive": m.desc});
    if ctx.want_sample {
        ctx.verdict.sample = Some(desc.clone());
    }
    if matches!(r.outcome, crate::cli::Outcome::Panic(_) | crate::cli::Outcome::StepBudget | crate::cli::Outcome::Deadlock) {
        ctx.fail(&format!("clone-outcome:{}", r.outcome.class()), format!("clone ended with {}; {}", r.outcome.short(), desc));
        return;
    }
    let events: Vec<(sys::Op, String, i64, i64)> = sys::with(|s| s.log.iter().filter(|e| matches!(e.op, sys::Op::Open | sys::Op::Unlink | sys::Op::Rename | sys::Op::Mkdir)).map(|e| (e.op, s.path_name(e.path).to_string(), e.a, e.ret)).collect());
    for (op, path, a, ret) in &events {
        match op {
            // (the seam names a path after one level of link resolution: dirlnk is logged as dir.d)
            sys::Op::Open if a & WRITE_FLAGS != 0 && path.trim_end_matches('/') != out.trim_end_matches('/') && !(out == "dirlnk" && path.trim_end_matches('/') == "dir.d") => {
                ctx.fail("opened-for-writing", format!("clone opened {:?} with flags {:#o} (result {}): only the output may be opened for writing, created or truncated; {}", path, a, ret, desc));
                return;
            }
            sys::Op::Unlink | sys::Op::Rename | sys::Op::Mkdir => {
                ctx.fail("removed-or-renamed", format!("clone issued {:?} on {:?}; {}", op, path, desc));
                return;
            }
            _ => {}
        }
    }
    // (through the link the output is elsewhere/out.bin, whatever the path string looks like)
    let resolved = if through_link { "elsewhere/out.bin" } else { out };
    let new: Vec<&String> = after.iter().filter(|p| !before.contains(p) && p.as_str() != resolved).collect();
    let gone: Vec<&String> = before.iter().filter(|p| !after.contains(p)).collect();
    if !new.is_empty() || !gone.is_empty() {
        ctx.fail("sandbox-changed", format!("after the clone the sandbox has new entries {:?} and lost {:?}; {}", new, gone, desc));
        return;
    }
    if through_link && r.outcome.is_success() && scen::get_file("elsewhere/out.bin").as_deref() != Some(&m.source[..]) {
        ctx.fail("sandbox-changed", format!("the clone reported success but the file the output path resolves to (elsewhere/out.bin) does not hold the source; {}", desc));
        return;
    }
    if planted && scen::get_file("dir.d/a").as_deref() != Some(&b"earlier content of dir.d/a"[..]) {
        ctx.fail("sandbox-changed", format!("the file dir.d/a inside the directory named as output was changed or removed; {}", desc));
        return;
    }
    if is_dir && r.outcome.is_success() {
        ctx.fail("sandbox-changed", format!("the output path names a directory and the clone reported success; {}", desc));
        return;
    }
    simkit::count(if through_link {
        "probe:clone-through-symlinked-directory"
    } else if is_dir {
        "probe:clone-onto-a-directory"
    } else if range_ignored {
        "probe:clone-from-a-server-that-ignores-range"
    } else {
        "probe:clone-into-missing-directory"
    });
    ctx.verdict.nontrivial = true;
    ctx.verdict.shape = 7_000 + out.len() as u64 * 8 + flag.len() as u64 + ((http as u64) << 10);
}

/// Rare and expensive: an in-place update that swaps two constant regions of 9..17 MiB, i.e.
/// chunks far beyond every internal buffer (1 MiB refill, 2 MiB file buffer, anything a
/// "bound the memory" change might pick) moving in a cycle.
fn huge_chunk_swap(ctx: &mut Ctx) {
    // fixed-size chunks of 8.5 .. 12.5 MiB: region A (zeros) and region B (0xff), swapped in the
    // prior output, so that the in-place update is one two-chunk cycle of huge chunks
    let n = (17 << 19) + gen::draw(4 << 20) as usize;
    let (a_len, b_len) = (n, n);
    let mut source = vec![0u8; a_len];
    source.extend(std::iter::repeat(0xffu8).take(b_len));
    let mut prior = vec![0xffu8; b_len];
    prior.extend(std::iter::repeat(0u8).take(a_len));
    scen::put_file("src.bin", &source);
    scen::set_stdin(None);
    scen::set_schedule(100, true);
    let r = scen::run(&crate::cli::args(&["bita", "compress", "-i", "src.bin", "--compression", "none", "--fixed-size", &n.to_string(), "--buffered-chunks", "2", "a.cba"]));
    if !r.outcome.is_success() {
        ctx.fail(&format!("compress-outcome:{}", r.outcome.class()), format!("compress of two constant regions ended with {}", r.outcome.short()));
        return;
    }
    scen::put_file("out.bin", &prior);
    scen::quiet(|| {
        let _ = std::fs::remove_file("src.bin");
    });
    scen::draw_schedule();
    let before = scen::listing();
    sys::with(|s| s.log.clear());
    let r = scen::run(&crate::cli::args(&["bita", "clone", "--seed-output", "--buffered-chunks", "2", "a.cba", "out.bin"]));
    let after = scen::listing();
    let desc = json!({"huge_chunk_swap": {"zeros": a_len, "ones": b_len}, "outcome": r.outcome.short()});
    if ctx.want_sample {
        ctx.verdict.sample = Some(desc.clone());
    }
    if !r.outcome.is_success() || scen::get_file("out.bin").as_deref() != Some(&source[..]) {
        ctx.fail("huge-swap-clone", format!("in-place swap of two huge chunks: {}; output correct: {}; {}", r.outcome.short(), scen::get_file("out.bin").as_deref() == Some(&source[..]), desc));
        return;
    }
    let events: Vec<(sys::Op, String, i64, i64)> = sys::with(|s| s.log.iter().filter(|e| matches!(e.op, sys::Op::Open | sys::Op::Unlink | sys::Op::Rename | sys::Op::Mkdir)).map(|e| (e.op, s.path_name(e.path).to_string(), e.a, e.ret)).collect());
    for (op, path, a, ret) in &events {
        match op {
            sys::Op::Open if a & WRITE_FLAGS != 0 && path != "out.bin" => {
                ctx.fail("opened-for-writing", format!("clone opened {:?} with flags {:#o} (result {}): only the output may be opened for writing, created or truncated; {}", path, a, ret, desc));
                return;
            }
            sys::Op::Unlink | sys::Op::Rename | sys::Op::Mkdir => {
                ctx.fail("removed-or-renamed", format!("clone issued {:?} on {:?}; {}", op, path, desc));
                return;
            }
            _ => {}
        }
    }
    if before.keys().collect::<Vec<_>>() != after.keys().collect::<Vec<_>>() {
        ctx.fail("sandbox-changed", format!("the set of files changed; {}", desc));
        return;
    }
    simkit::count("probe:huge-chunk-swap");
    ctx.verdict.nontrivial = true;
    ctx.verdict.shape = (a_len as u64) << 8 ^ b_len as u64;
}

fn run_clone(ctx: &mut Ctx) {
    if gen::chance(1, if ctx.tier == crate::harness::Tier::Thorough { 150 } else { 400 }) {
        return huge_chunk_swap(ctx);
    }
    let Some(mut f) = clonefam::generate(ctx, Which::C16) else { return };
    f.level2 = true;
    // a quarter of the clones is made to fail (damaged chunk data, truncated archive, existing
    // output without --force-create, wrong --verify-header): a failing clone must not remove,
    // rename or write anything but the output either
    let mut extra = clonefam::ExecExtra::default();
    let mut presented: Option<Vec<u8>> = None;
    let sabotage = *gen::t(|t| t.pick(&["none", "none", "none", "none", "none", "none", "payload-flip", "truncated", "exists-no-force", "wrong-verify-header"]));
    match sabotage {
        "payload-flip" => {
            let mut a = f.made.archive.clone();
            if a.len() > f.ra.header_len {
                let i = f.ra.header_len + gen::draw((a.len() - f.ra.header_len) as u32) as usize;
                a[i] ^= 0x40;
                presented = Some(a);
            }
        }
        "truncated" => {
            let mut a = f.made.archive.clone();
            let keep = f.ra.header_len + gen::draw((a.len() - f.ra.header_len) as u32 + 1) as usize;
            a.truncate(keep);
            presented = Some(a);
        }
        "exists-no-force" => {
            if f.prior.is_none() {
                f.prior = Some(b"an unrelated file that is in the way".to_vec());
            }
            f.seed_output = false;
            f.blockdev = false;
            extra.no_force = true;
        }
        "wrong-verify-header" => {
            let mut sum = f.ra.header_checksum.clone();
            sum[3] ^= 1;
            extra.verify_header = Some(gen::hex(&sum));
        }
        _ => {}
    }
    if sabotage != "none" {
        simkit::count("failing-clone-scenario");
    }
    // the output named as a seed of itself (same path or another spelling of it): still only
    // the output may be written, nothing created next to it
    if f.prior.is_some() && !f.blockdev && gen::chance(1, 8) {
        extra.alias_output_as_seed = Some(*gen::t(|t| t.pick(&["out.bin", "./out.bin", "out.bin"])));
    }
    // the existing output is one of two names of a file (a snapshot made with cp -l): the clone
    // writes through the name it was given, it does not replace the file
    if f.prior.is_some() && !f.blockdev && gen::chance(1, 10) {
        extra.hard_link_output = true;
        simkit::count("probe:output-has-a-second-hard-link");
    }
    let ob = clonefam::execute_with(&f, presented.as_deref(), &extra);
    let outcome = ob.outcome.clone().unwrap();
    // O4 (DESIGN.md section 6): the aliased seed grows while it is scanned and the chunker panics
    // on its stale scan position; what the clone opened and wrote until then is still judged
    let o4 = extra.alias_output_as_seed.is_some() && matches!(&outcome, crate::cli::Outcome::Panic(p) if p.contains("bitar/src/chunker/"));
    if o4 {
        simkit::count("observation:O4-chunker-polled-again-on-grown-seed");
    }
    if !o4 && matches!(outcome, crate::cli::Outcome::Panic(_) | crate::cli::Outcome::StepBudget | crate::cli::Outcome::Deadlock) {
        ctx.fail(&format!("clone-outcome:{}", outcome.class()), format!("clone ended with {}; {}", outcome.short(), f.desc));
        return;
    }
    for (op, path, a, ret) in &ob.fs_events {
        match op {
            sys::Op::Open => {
                if a & WRITE_FLAGS != 0 && path != "out.bin" {
                    ctx.fail("opened-for-writing", format!("clone opened {:?} with flags {:#o} (result {}): only the output may be opened for writing, created or truncated; {}", path, a, ret, f.desc));
                    return;
                }
            }
            sys::Op::Unlink | sys::Op::Rename | sys::Op::Mkdir => {
                ctx.fail("removed-or-renamed", format!("clone issued {:?} on {:?}; {}", op, path, f.desc));
                return;
            }
            sys::Op::Truncate => {
                if path != "out.bin" {
                    ctx.fail("truncated-other-file", format!("clone truncated {:?}; {}", path, f.desc));
                    return;
                }
            }
            _ => {}
        }
    }
    let mut changed: Vec<String> = Vec::new();
    for (k, v) in &ob.listing_after {
        if ob.listing_before.get(k) != Some(v) {
            changed.push(k.clone());
        }
    }
    for k in ob.listing_before.keys() {
        if !ob.listing_after.contains_key(k) {
            changed.push(format!("-{}", k));
        }
    }
    // (the second name of the output shows the same file: it changes with it, and only with it)
    let hl_ok = |c: &str| c == "out.hl" && extra.hard_link_output && ob.listing_after.get("out.hl") == ob.listing_after.get("out.bin");
    if let Some(c) = changed.iter().find(|c| c.as_str() != "out.bin" && !hl_ok(c.as_str())) {
        ctx.fail("sandbox-changed", format!("after the clone the sandbox differs at {:?} (all changes: {:?}); {}", c, changed, f.desc));
        return;
    }
    let (nt, shape) = clonefam::nontrivial(&f, &ob, Which::C16);
    ctx.verdict.nontrivial = nt || ob.fs_events.len() >= 3;
    ctx.verdict.shape = shape ^ ob.fs_events.len() as u64;
}

fn run_compress(ctx: &mut Ctx) {
    let mut spec = scen::gen_compress_spec(true, false);
    spec.metadata = scen::cli_safe_metadata(&spec.metadata);
    let max_len = gen::len_cap(spec.comp, &spec.cfg, 48 * 1024);
    let (sspec, data) = gen::gen_source(&spec.cfg, max_len);
    let stdin = gen::chance(1, 3);
    let force = gen::chance(1, 3);
    let existing = force && gen::chance(1, 2);
    // file names are bytes: two of the names are not valid UTF-8 (in the stem, in a directory)
    use std::os::unix::ffi::OsStrExt;
    const NAMES: [&[u8]; 8] = [b"a.cba", b"archive", b"x.y.cba", b"dir.d/a.cba", b"arch\xff.cba", b"dir.d/o\xfeut.cba", b"a.cba", b"x.y.cba"];
    let name_bytes: &[u8] = NAMES[gen::draw(NAMES.len() as u32) as usize];
    let name_os = std::ffi::OsStr::from_bytes(name_bytes).to_os_string();
    let name_lossy = name_os.to_string_lossy().to_string();
    let name: &str = &name_lossy;
    if std::str::from_utf8(name_bytes).is_err() {
        simkit::count("probe:archive-name-not-utf8");
    }
    scen::quiet(|| {
        let _ = std::fs::create_dir_all("dir.d");
    });
    if existing {
        scen::quiet(|| std::fs::write(&name_os, b"previous content of the archive path").expect("sandbox write"));
    }
    if !stdin {
        scen::put_file("src.bin", &data);
    }
    scen::set_stdin(if stdin { Some(data.clone()) } else { None });
    let args: Vec<std::ffi::OsString> = {
        let mut a: Vec<std::ffi::OsString> = scen::compress_args(&spec, if stdin { None } else { Some("src.bin") }, "OUTPUT", force).into_iter().map(Into::into).collect();
        *a.last_mut().unwrap() = name_os.clone();
        a
    };
    let sched = scen::draw_schedule();
    scen::draw_short_reads();
    let desc = json!({"options": spec.json(), "source": sspec.json(), "stdin": stdin, "force_create": force, "existing_output": existing, "output": name, "schedule": sched});
    if ctx.want_sample {
        ctx.verdict.sample = Some(json!({"compress": desc}));
    }
    let list_dir = |d: &str| -> std::collections::BTreeMap<String, (u64, String)> {
        scen::quiet(|| {
            let mut m = std::collections::BTreeMap::new();
            for dir in [".", d] {
                if let Ok(rd) = std::fs::read_dir(dir) {
                    for e in rd.flatten() {
                        if e.path().is_file() {
                            let data = std::fs::read(e.path()).unwrap_or_default();
                            m.insert(e.path().to_string_lossy().trim_start_matches("./").to_string(), (data.len() as u64, gen::hex(&gen::blake2b512(&data)[..8])));
                        }
                    }
                }
            }
            m
        })
    };
    let before = list_dir("dir.d");
    sys::with(|s| s.log.clear());
    let r = crate::cli::run_cli_os(&args);
    scen::set_stdin(None);
    let after = list_dir("dir.d");
    if !r.outcome.is_success() {
        ctx.fail(&format!("compress-outcome:{}", r.outcome.class()), format!("compress of a valid scenario ended with {}; {}", r.outcome.short(), desc));
        return;
    }
    let events: Vec<(sys::Op, String, i64, i64)> = sys::with(|s| s.log.iter().filter(|e| matches!(e.op, sys::Op::Open | sys::Op::Unlink | sys::Op::Rename | sys::Op::Mkdir)).map(|e| (e.op, s.path_name(e.path).to_string(), e.a, e.ret)).collect());
    // which temporary files compress uses and how it names them is its own business; what it
    // may not do is open for writing, remove or rename a file that was there before (other
    // than the archive path itself)
    for (op, path, a, ret) in &events {
        let preexisting = before.contains_key(path) && path != name;
        let outside = path.starts_with('/');
        match op {
            sys::Op::Open if a & WRITE_FLAGS != 0 && (preexisting || outside) => {
                ctx.fail("opened-for-writing", format!("compress opened {:?}, which is not its output and existed before, with flags {:#o} (result {}); {}", path, a, ret, desc));
                return;
            }
            sys::Op::Unlink | sys::Op::Rename if preexisting || outside => {
                ctx.fail("removed-other-file", format!("compress issued {:?} on {:?}, a file that existed before; {}", op, path, desc));
                return;
            }
            _ => {}
        }
    }
    // exactly one new (or replaced) file: the archive
    let mut diff: Vec<String> = Vec::new();
    for (k, v) in &after {
        if before.get(k) != Some(v) {
            diff.push(k.clone());
        }
    }
    for k in before.keys() {
        if !after.contains_key(k) {
            diff.push(format!("-{}", k));
        }
    }
    if diff != vec![name.to_string()] {
        ctx.fail("leftover-files", format!("a successful compress must leave exactly one new file, the archive {:?}; the listing differs at {:?}; {}", name, diff, desc));
        return;
    }
    ctx.verdict.nontrivial = events.len() >= 3;
    ctx.verdict.shape = events.len() as u64 ^ ((stdin as u64) << 20) ^ ((force as u64) << 21) ^ ((name.len() as u64) << 24);
    // one in five: the same compression again, with --force-create, after an earlier attempt was
    // killed and left its temporary chunk file behind (planted under the name the first run was
    // seen to create). bita may reuse and remove that file or work around it; a successful run
    // still leaves no new file but the archive.
    if !gen::chance(1, 5) || std::str::from_utf8(name_bytes).is_err() {
        return;
    }
    let temp = events.iter().find(|(op, p, a, ret)| *op == sys::Op::Open && a & libc::O_CREAT as i64 != 0 && *ret >= 0 && p != name && !p.starts_with('/') && !before.contains_key(p)).map(|(_, p, _, _)| p.clone());
    let Some(temp) = temp else { return };
    // a third of the repeats: nothing planted, nothing failing -- the very same compression once
    // more with --force-create over its own result
    if gen::chance(1, 3) {
        if !stdin {
            scen::put_file("src.bin", &data);
        }
        scen::set_stdin(if stdin { Some(data.clone()) } else { None });
        scen::draw_schedule();
        // (compress_args plants the metadata files: before the listing is taken)
        let args4: Vec<std::ffi::OsString> = {
            let mut a: Vec<std::ffi::OsString> = scen::compress_args(&spec, if stdin { None } else { Some("src.bin") }, "OUTPUT", true).into_iter().map(Into::into).collect();
            *a.last_mut().unwrap() = name_os.clone();
            a
        };
        let before4 = list_dir("dir.d");
        let r4 = crate::cli::run_cli_os(&args4);
        scen::set_stdin(None);
        let after4 = list_dir("dir.d");
        simkit::count("probe:compress-again-over-own-result");
        if !r4.outcome.is_success() {
            ctx.fail(&format!("compress-outcome:{}", r4.outcome.class()), format!("the same compression again with --force-create ended with {}; {}", r4.outcome.short(), desc));
            return;
        }
        let new: Vec<&String> = after4.keys().filter(|k| !before4.contains_key(*k)).collect();
        let gone: Vec<&String> = before4.keys().filter(|k| !after4.contains_key(*k)).collect();
        if !new.is_empty() || !gone.is_empty() {
            ctx.fail("leftover-files", format!("the same compression again with --force-create: new files {:?}, lost files {:?}; {}", new, gone, desc));
        }
        return;
    }
    // half of the repeats instead: removing the temporary file fails (EPERM: an append-only or
    // sticky directory, EBUSY: a bind mount). A compress that cannot clean up may fail; it may
    // not report success with its temporary file still there.
    if gen::chance(1, 2) {
        if !stdin {
            scen::put_file("src.bin", &data);
        }
        scen::set_stdin(if stdin { Some(data.clone()) } else { None });
        scen::draw_schedule();
        let errno = *gen::t(|t| t.pick(&[libc::EPERM, libc::EBUSY, libc::EIO]));
        let args3: Vec<std::ffi::OsString> = {
            let mut a: Vec<std::ffi::OsString> = scen::compress_args(&spec, if stdin { None } else { Some("src.bin") }, "OUTPUT", true).into_iter().map(Into::into).collect();
            *a.last_mut().unwrap() = name_os.clone();
            a
        };
        let before3 = list_dir("dir.d");
        sys::with(|s| {
            s.log.clear();
            s.add_fault(&temp, sys::Op::Unlink, 0, sys::FaultAction::Errno(errno));
        });
        let r3 = crate::cli::run_cli_os(&args3);
        scen::set_stdin(None);
        let after3 = list_dir("dir.d");
        let fired = sys::with(|s| s.fault_fired.iter().any(|(p, _)| *p == temp || p.ends_with(&temp)));
        if !fired {
            return;
        }
        simkit::count("probe:unlink-of-temp-file-failed");
        if matches!(r3.outcome, crate::cli::Outcome::StepBudget | crate::cli::Outcome::Deadlock) {
            ctx.fail(&format!("compress-outcome:{}", r3.outcome.class()), format!("compress whose unlink of {:?} fails ended with {}; {}", temp, r3.outcome.short(), desc));
            return;
        }
        if r3.outcome.is_success() {
            let new: Vec<&String> = after3.keys().filter(|k| !before3.contains_key(*k)).collect();
            if !new.is_empty() {
                ctx.fail("leftover-files", format!("removing the temporary file {:?} failed (errno {}), yet compress reported success and left {:?} behind; {}", temp, errno, new, desc));
                return;
            }
        }
        // clean up for whatever follows in this run
        scen::quiet(|| {
            let _ = std::fs::remove_file(&temp);
        });
        return;
    }
    scen::put_file(&temp, &vec![0x5Au8; data.len() * 2 + 4096 + gen::draw(3000) as usize]);
    if !stdin {
        scen::put_file("src.bin", &data);
    }
    scen::set_stdin(if stdin { Some(data.clone()) } else { None });
    let args2: Vec<std::ffi::OsString> = {
        let mut a: Vec<std::ffi::OsString> = scen::compress_args(&spec, if stdin { None } else { Some("src.bin") }, "OUTPUT", true).into_iter().map(Into::into).collect();
        *a.last_mut().unwrap() = name_os.clone();
        a
    };
    scen::draw_schedule();
    let before2 = list_dir("dir.d");
    sys::with(|s| s.log.clear());
    let r2 = crate::cli::run_cli_os(&args2);
    scen::set_stdin(None);
    let after2 = list_dir("dir.d");
    simkit::count("probe:compress-after-stale-temp-file");
    if !r2.outcome.is_success() {
        ctx.fail(&format!("compress-outcome:{}", r2.outcome.class()), format!("compress -f with a stale temporary file {:?} in place ended with {}; {}", temp, r2.outcome.short(), desc));
        return;
    }
    let events2: Vec<(sys::Op, String, i64, i64)> = sys::with(|s| s.log.iter().filter(|e| matches!(e.op, sys::Op::Open | sys::Op::Unlink | sys::Op::Rename | sys::Op::Mkdir)).map(|e| (e.op, s.path_name(e.path).to_string(), e.a, e.ret)).collect());
    for (op, path, a, ret) in &events2 {
        let protected = before2.contains_key(path) && path != name && *path != temp;
        match op {
            sys::Op::Open if a & WRITE_FLAGS != 0 && protected => {
                ctx.fail("opened-for-writing", format!("compress opened {:?}, which is neither its output nor its temporary file and existed before, with flags {:#o} (result {}); {}", path, a, ret, desc));
                return;
            }
            sys::Op::Unlink | sys::Op::Rename if protected => {
                ctx.fail("removed-other-file", format!("compress issued {:?} on {:?}, a file that existed before; {}", op, path, desc));
                return;
            }
            _ => {}
        }
    }
    let new: Vec<&String> = after2.keys().filter(|k| !before2.contains_key(*k)).collect();
    let gone: Vec<&String> = before2.keys().filter(|k| !after2.contains_key(*k) && **k != temp).collect();
    if !new.is_empty() || !gone.is_empty() {
        ctx.fail("leftover-files", format!("compress -f with a stale temporary file {:?} in place: new files {:?}, lost files {:?} (only the archive may change, only the temporary file may go); {}", temp, new, gone, desc));
        return;
    }
}
