//! C11 — written archives conform to the documented format and report settings verbatim.
//! Judged by the independent decoder (RefFormat) and the reference chunker, for both
//! writers under every schedule.

use std::sync::Arc;

use bitar::archive_reader::IoReader;
use bitar::Archive;
use serde_json::json;
use simkit::exec::End;

use crate::cli::run_async;
use crate::gen::{self, Algo, Comp};
use crate::harness::{Ctx, Tier};
use crate::props::c01::make_archive;
use crate::refmodel::chunker::ref_chunks;
use crate::refmodel::format::{decode_archive, ref_chunk, MAGIC};
use crate::scen;
use crate::simio::SimFile;

/// The input file grows while `bita compress -i` reads it: another process appends to it at a
/// moment the scheduler picks. Whatever compress managed to read is "the source" -- the archive
/// unpacked by the independent decoder -- and everything the archive records must describe
/// exactly that: a size taken from the file's metadata at some other moment does not.
fn growing_input(ctx: &mut Ctx) -> Option<crate::props::c01::Made> {
    let mut spec = scen::gen_compress_spec(true, false);
    spec.metadata = scen::cli_safe_metadata(&spec.metadata);
    let (sspec, initial) = gen::gen_source(&spec.cfg, gen::len_cap(spec.comp, &spec.cfg, 64 * 1024));
    let mut extra = vec![0u8; 1 + gen::draw(8192) as usize];
    simkit::prng::Rng::new(gen::t(|t| t.seed64())).fill(&mut extra);
    scen::put_file("src.bin", &initial);
    scen::set_stdin(None);
    scen::quiet(|| {
        let _ = std::fs::remove_file("a.cba");
    });
    let sched = scen::draw_schedule();
    let extra2 = extra.clone();
    tokio::__spawn_blocking_detached(move || {
        use std::io::Write;
        if let Ok(mut f) = std::fs::OpenOptions::new().append(true).open("src.bin") {
            let _ = f.write_all(&extra2);
        }
    });
    let r = scen::run(&scen::compress_args(&spec, Some("src.bin"), "a.cba", false));
    let final_content = scen::get_file("src.bin").unwrap_or_default();
    let archive = scen::get_file("a.cba").unwrap_or_default();
    let desc = json!({"writer": "cli-file", "input": "grows while it is read", "initial_len": initial.len(), "appended": extra.len(), "final_len": final_content.len(),
        "options": spec.json(), "source": sspec.json(), "schedule": sched, "outcome": r.outcome.short()});
    if ctx.want_sample {
        ctx.verdict.sample = Some(desc.clone());
    }
    simkit::count("probe:input-grows-while-compressed");
    // O4 (DESIGN.md section 6): the chunker polled again after its last chunk, on a file that grew
    if matches!(&r.outcome, crate::cli::Outcome::Panic(p) if p.contains("bitar/src/chunker/")) {
        simkit::count("observation:O4-chunker-polled-again-on-grown-input");
        return None;
    }
    if !r.outcome.is_success() {
        ctx.fail(&format!("compress-cli:{}", r.outcome.class()), format!("compress of a growing input ended with {}; {}", r.outcome.short(), desc));
        return None;
    }
    let ra = match decode_archive(&archive) {
        Ok(a) => a,
        Err(e) => {
            ctx.fail("header", format!("reference decoder rejects the archive of a growing input: {}; {}", e, desc));
            return None;
        }
    };
    let recon = match crate::refmodel::format::ref_unpack(&ra, &archive) {
        Ok(r) => r,
        Err(e) => {
            ctx.fail("stored-chunk", format!("the archive of a growing input does not unpack: {}; {}", e, desc));
            return None;
        }
    };
    if recon.len() < initial.len() || !final_content.starts_with(&recon) {
        ctx.fail("archive-content", format!("the archive of a growing input unpacks to {} bytes that are not a prefix (of at least the initial {} bytes) of the file; {}", recon.len(), initial.len(), desc));
        return None;
    }
    if recon.len() > initial.len() {
        simkit::count("probe:appended-bytes-archived");
    }
    Some(crate::props::c01::Made { spec, source: Arc::new(recon), archive, writer: "cli-file(growing input)", desc })
}

pub fn run(ctx: &mut Ctx) {
    let big = gen::chance(1, if ctx.tier == crate::harness::Tier::Thorough { 40 } else { 400 });
    let m = if !big && gen::chance(1, 14) {
        let Some(m) = growing_input(ctx) else { return };
        m
    } else {
        let Some(m) = make_archive(ctx, if big { 5 << 20 } else { 96 * 1024 }, big, None) else { return };
        m
    };
    let a = &m.archive;
    let src = &m.source;
    let spec = &m.spec;
    macro_rules! bad {
        ($clause:expr, $($arg:tt)*) => {{
            ctx.fail($clause, format!("{}; written by {}; {}", format!($($arg)*), m.writer, m.desc));
            return;
        }};
    }
    if a.len() < 6 || &a[..6] != MAGIC {
        bad!("magic", "archive does not start with BITA1\\0");
    }
    let ra = match decode_archive(a) {
        Ok(r) => r,
        Err(e) => bad!("header", "reference decoder rejects the header: {}", e),
    };
    if ra.chunk_data_offset != ra.header_len as u64 {
        bad!("chunk-data-offset", "chunk data offset {} is not the header length {}", ra.chunk_data_offset, ra.header_len);
    }
    let d = &ra.dict;
    // expected chunk sequence from the reference chunker. A file that grew while it was read is
    // not one byte stream: when compress met its (temporary) end it closed a chunk there, and
    // went on when more bytes appeared (O4's harmless face). Where those cuts fall is no
    // property's business; for such an input the chunk sequence is taken from the archive itself
    // and everything below checks that the archive is consistent with it.
    let chunks = if m.writer.contains("growing") {
        let mut v = Vec::new();
        let mut o = 0usize;
        for &i in &d.rebuild_order {
            let Some(x) = d.descriptors.get(i as usize) else { bad!("rebuild-order", "rebuild index {} out of range", i) };
            v.push((o, x.source_size as usize));
            o += x.source_size as usize;
        }
        if o != src.len() {
            bad!("rebuild-order", "the chunk sizes in rebuild order sum to {}, the archive unpacks to {} bytes", o, src.len());
        }
        v
    } else {
        ref_chunks(&spec.cfg, src)
    };
    let hl = spec.hash_len;
    let mut uniq: Vec<(Vec<u8>, usize)> = Vec::new(); // (full hash, size) in order of first occurrence
    let mut order: Vec<u32> = Vec::new();
    {
        let mut seen: std::collections::HashMap<Vec<u8>, u32> = std::collections::HashMap::new();
        for &(o, l) in &chunks {
            let h = gen::blake2b512(&src[o..o + l]);
            let idx = *seen.entry(h.clone()).or_insert_with(|| {
                uniq.push((h.clone(), l));
                (uniq.len() - 1) as u32
            });
            order.push(idx);
        }
    }
    if d.descriptors.len() != uniq.len() {
        bad!("descriptor-count", "{} descriptors, the source has {} unique chunks ({} chunks)", d.descriptors.len(), uniq.len(), chunks.len());
    }
    let mut off = 0u64;
    let mut seen_sums = std::collections::HashSet::new();
    for (i, (c, (h, l))) in d.descriptors.iter().zip(uniq.iter()).enumerate() {
        if c.checksum != h[..hl] {
            bad!("descriptor-hash", "descriptor {} checksum is not the first {} bytes of Blake2b-512 of the {}-th unique chunk", i, hl, i);
        }
        if c.source_size as usize != *l {
            bad!("descriptor-size", "descriptor {} source size {} expected {}", i, c.source_size, l);
        }
        if c.archive_offset != off {
            bad!("descriptor-offset", "descriptor {} stored at relative offset {} expected {} (back-to-back from 0)", i, c.archive_offset, off);
        }
        if c.archive_size > c.source_size {
            bad!("stored-larger-than-source", "descriptor {} stored size {} exceeds source size {}", i, c.archive_size, c.source_size);
        }
        if c.archive_size == 0 {
            bad!("stored-empty", "descriptor {} has stored size 0", i);
        }
        if hl >= 8 && !seen_sums.insert(c.checksum.clone()) {
            bad!("descriptor-duplicate", "descriptor {} repeats an earlier checksum", i);
        }
        if let Err(e) = ref_chunk(&ra, a, i) {
            bad!("stored-chunk", "stored chunk {} does not decode to its descriptor: {}", i, e);
        }
        off += c.archive_size as u64;
    }
    if a.len() as u64 != ra.header_len as u64 + off {
        bad!("file-length", "file length {} is not header {} + stored chunks {} (= {})", a.len(), ra.header_len, off, ra.header_len as u64 + off);
    }
    if d.rebuild_order != order {
        let i = d.rebuild_order.iter().zip(order.iter()).position(|(x, y)| x != y).unwrap_or(d.rebuild_order.len().min(order.len()));
        bad!("rebuild-order", "rebuild order differs from the source's chunk sequence at position {} ({} vs {} entries)", i, d.rebuild_order.len(), order.len());
    }
    if d.source_total_size != src.len() as u64 {
        bad!("source-size", "recorded source size {} expected {}", d.source_total_size, src.len());
    }
    if d.source_checksum != gen::blake2b512(src) {
        bad!("source-checksum", "recorded source checksum is not Blake2b-512 of the source");
    }
    // recorded parameters
    let Some(p) = d.params.as_ref() else { bad!("params-missing", "no chunker parameters message") };
    let want = match spec.cfg.algo {
        Algo::Fixed => (2u32, 0u32, 0u32, spec.cfg.max as u32, 0u32),
        Algo::RollSum => (1, spec.cfg.bits, spec.cfg.min as u32, spec.cfg.max as u32, spec.cfg.window as u32),
        Algo::BuzHash => (0, spec.cfg.bits, spec.cfg.min as u32, spec.cfg.max as u32, spec.cfg.window as u32),
    };
    if (p.algorithm, p.filter_bits, p.min, p.max, p.window) != want {
        bad!("params", "recorded chunker parameters {:?} differ from the requested (algo,bits,min,max,window)={:?}", p, want);
    }
    if p.hash_length as usize != hl {
        bad!("hash-length", "recorded hash length {} expected {}", p.hash_length, hl);
    }
    let want_c = match spec.comp {
        Comp::None => (0u32, 0u32),
        Comp::Lzma(l) => (1, l),
        Comp::Zstd(l) => (2, l),
        Comp::Brotli(l) => (3, l),
    };
    match d.compression {
        Some(c) if c == want_c => {}
        other => bad!("compression", "recorded compression {:?} expected {:?}", other, want_c),
    }
    if d.metadata != spec.metadata {
        bad!("metadata", "recorded metadata keys {:?} expected {:?}", d.metadata.keys().collect::<Vec<_>>(), spec.metadata.keys().collect::<Vec<_>>());
    }
    // what bitar's reader reports back
    let reader = IoReader::new(SimFile::drawn(a.clone()));
    let cfg_want = spec.cfg.to_config();
    let comp_want = spec.comp.to_bitar();
    let meta_want = spec.metadata.clone();
    let (size_want, sum_want, hsum_want) = (src.len() as u64, gen::blake2b512(src), ra.header_checksum.clone());
    let r = run_async(async move {
        let ar = Archive::try_init(reader).await.map_err(|_| "try_init failed".to_string())?;
        if ar.chunker_config() != &cfg_want {
            return Err(format!("chunker_config() = {:?}", ar.chunker_config()));
        }
        if ar.chunk_hash_length() != hl {
            return Err(format!("chunk_hash_length() = {}", ar.chunk_hash_length()));
        }
        if ar.chunk_compression() != comp_want {
            return Err(format!("chunk_compression() = {:?}", ar.chunk_compression()));
        }
        if ar.total_source_size() != size_want {
            return Err(format!("total_source_size() = {}", ar.total_source_size()));
        }
        if ar.source_checksum().slice() != &sum_want[..] {
            return Err("source_checksum() differs".into());
        }
        if ar.header_checksum().slice() != &hsum_want[..] {
            return Err("header_checksum() differs".into());
        }
        let got: std::collections::BTreeMap<String, Vec<u8>> = ar.metadata_iter().map(|(k, v)| (k.to_string(), v.to_vec())).collect();
        if got != meta_want {
            return Err("metadata_iter() differs".into());
        }
        Ok(())
    });
    match r {
        Ok(End::Done(Ok(()))) => {}
        Ok(End::Done(Err(e))) => bad!("reader-reports", "bitar's reader reports different settings: {}", e),
        Ok(e) => bad!("reader-outcome", "opening the archive with bitar ended with {}", e.kind()),
        Err(p) => bad!("reader-panic", "opening the archive with bitar panicked at {}", p),
    }
    // bita info --metadata-key prints the value verbatim
    if let Some((k, v)) = spec.metadata.iter().next() {
        if !k.starts_with('-') {
            scen::put_file("a.cba", a);
            scen::draw_schedule();
            let r = scen::run(&crate::cli::args(&["bita", "info", "--metadata-key", k, "a.cba"]));
            if !r.outcome.is_success() {
                bad!("info-outcome", "bita info --metadata-key {:?} ended with {}", k, r.outcome.short());
            }
            if &r.stdout != v {
                bad!("info-metadata", "bita info --metadata-key {:?} printed {} bytes, the value has {}", k, r.stdout.len(), v.len());
            }
            simkit::count("info-metadata-checked");
        }
    }
    let _ = json!(null);
    let _ = Arc::new(0);
    ctx.verdict.nontrivial = chunks.len() >= 2;
    ctx.verdict.shape = chunks.len() as u64 ^ ((uniq.len() as u64) << 24) ^ ((spec.metadata.len() as u64) << 48);
}
