//! Self-test scenarios (not properties of bita): they make statements about the simulator.

use std::collections::HashMap;

use crate::harness::Ctx;

/// HashMap iteration order must be a function of the tape (std seeds RandomState from the
/// interposed getrandom, once per thread; every run is a fresh thread).
pub fn hashorder(ctx: &mut Ctx) {
    let mut m: HashMap<u32, u32> = HashMap::new();
    for i in 0..24 {
        m.insert(i * 7919, i);
    }
    let order: Vec<u32> = m.values().copied().collect();
    let mut h = 0u64;
    for v in &order {
        h = h.wrapping_mul(31).wrapping_add(*v as u64);
    }
    simkit::with(|s| s.event("hash-order", h, 0));
    ctx.verdict.nontrivial = true;
    ctx.verdict.shape = h;
    if ctx.want_sample {
        ctx.verdict.sample = Some(serde_json::json!({"iteration_order": order}));
    }
}

/// Cross-check scenario: a fault-free CLI compress + clone whose inputs, arguments and results
/// are dumped so that the real `bita` binary can be run on the same files (tools/crosscheck.py).
pub fn cross(ctx: &mut Ctx) {
    use crate::gen;
    use crate::scen;
    let Some(dir) = std::env::var_os("BITASIM_DUMPDIR") else { return };
    let mut spec = scen::gen_compress_spec(true, false);
    spec.metadata = scen::cli_safe_metadata(&spec.metadata);
    spec.verbose = 0;
    let max_len = gen::len_cap(spec.comp, &spec.cfg, 64 * 1024);
    let (_, data) = gen::gen_source(&spec.cfg, max_len);
    scen::put_file("src.bin", &data);
    scen::set_stdin(None);
    scen::draw_schedule();
    let cargs = scen::compress_args(&spec, Some("src.bin"), "a.cba", false);
    let r = scen::run(&cargs);
    if !r.outcome.is_success() {
        ctx.fail("cross-compress", r.outcome.short());
        return;
    }
    let with_seed = gen::chance(1, 2);
    let mut opts = scen::CloneOpts { buffers: gen::gen_buffers(), verify_output: gen::chance(1, 3), ..Default::default() };
    if with_seed {
        let (_, sd) = gen::gen_seed_data(&data, spec.cfg.edit_unit());
        scen::put_file("seed0.bin", &sd);
        opts.seeds.push("seed0.bin".into());
    }
    scen::draw_schedule();
    let kargs = scen::clone_args("a.cba", "out.bin", &opts);
    let r = scen::run(&kargs);
    if !r.outcome.is_success() {
        ctx.fail("cross-clone", r.outcome.short());
        return;
    }
    // dump
    let id = simkit::with(|s| s.trace_hash);
    let out = std::path::Path::new(&dir).join(format!("{:016x}", id));
    scen::quiet(|| {
        let _ = std::fs::create_dir_all(&out);
        for f in ["src.bin", "seed0.bin", "a.cba", "out.bin"] {
            if let Ok(d) = std::fs::read(f) {
                let _ = std::fs::write(out.join(f), d);
            }
        }
        for (i, _) in spec.metadata.iter().enumerate() {
            let f = format!("meta{}.bin", i);
            if let Ok(d) = std::fs::read(&f) {
                let _ = std::fs::write(out.join(&f), d);
            }
        }
        let _ = std::fs::write(out.join("args.json"), serde_json::json!({"compress": cargs, "clone": kargs}).to_string());
    });
    ctx.verdict.nontrivial = true;
}

/// tokio::spawn / join! / timeout on the simulator's executor.
pub fn spawn(ctx: &mut Ctx) {
    crate::scen::draw_schedule();
    let r = crate::cli::run_async(async {
        let mut hs = Vec::new();
        for i in 0..4u64 {
            hs.push(tokio::spawn(async move {
                let a = tokio::task::spawn_blocking(move || i * 10).await.unwrap();
                tokio::time::sleep(std::time::Duration::from_millis(5 * (4 - i))).await;
                let b = tokio::task::spawn_blocking(move || a + 1).await.unwrap();
                b
            }));
        }
        let mut out = Vec::new();
        for h in hs {
            out.push(h.await.unwrap());
        }
        let (x, y) = tokio::join!(async { 1 }, async { 2 });
        let t = tokio::time::timeout(std::time::Duration::from_secs(1), tokio::time::sleep(std::time::Duration::from_secs(5))).await;
        let p = tokio::spawn(async { panic!("boom") }).await;
        (out, x + y, t.is_err(), p.is_err())
    });
    match r {
        Ok(simkit::exec::End::Done((out, 3, true, true))) if out == vec![1, 11, 21, 31] => {}
        other => ctx.fail("spawn-selftest", format!("{:?}", other.map(|e| format!("{:?}", e.kind())))),
    }
    ctx.verdict.nontrivial = true;
    ctx.verdict.shape = simkit::with(|s| s.sched_hash);
}

/// Pool closures that wait for the async side, for each other and for a timeout: only
/// possible when the closures run on threads of their own (simkit::threads). Every scenario
/// has one right answer whatever the schedule.
pub fn block(ctx: &mut Ctx) {
    use std::sync::mpsc;
    use std::sync::{Arc, Condvar, Mutex};
    crate::scen::draw_schedule();
    let which = crate::gen::draw(6);
    let n = 1 + crate::gen::draw(6) as u64;
    simkit::with(|s| s.event("xblock", which as u64, n));
    let observed: Arc<Mutex<Vec<u64>>> = Arc::new(Mutex::new(Vec::new()));
    let obs = observed.clone();
    let r = crate::cli::run_async(async move {
        match which {
            0 => {
                // a digest worker fed through a channel; the sender is dropped at the end
                let (tx, rx) = mpsc::channel::<u64>();
                let h = tokio::task::spawn_blocking(move || {
                    let mut sum = 0;
                    while let Ok(v) = rx.recv() {
                        obs.lock().unwrap().push(v);
                        sum += v;
                    }
                    sum
                });
                for i in 1..=n {
                    tx.send(i).unwrap();
                    if i % 2 == 0 {
                        tokio::task::yield_now().await;
                    }
                }
                drop(tx);
                h.await.unwrap() == n * (n + 1) / 2
            }
            1 => {
                // two closures talk to each other, the async side only waits for both
                let (tx, rx) = mpsc::sync_channel::<u64>(1);
                let a = tokio::task::spawn_blocking(move || {
                    for i in 0..n {
                        tx.send(i).unwrap();
                    }
                });
                let b = tokio::task::spawn_blocking(move || {
                    let mut got = Vec::new();
                    while let Ok(v) = rx.recv() {
                        got.push(v);
                    }
                    got
                });
                a.await.unwrap();
                b.await.unwrap() == (0..n).collect::<Vec<_>>()
            }
            2 => {
                // Mutex + Condvar: the closure waits until the async side has set the flag
                let pair = Arc::new((Mutex::new(false), Condvar::new()));
                let p2 = pair.clone();
                let h = tokio::task::spawn_blocking(move || {
                    let (m, c) = &*p2;
                    let mut g = m.lock().unwrap();
                    while !*g {
                        g = c.wait(g).unwrap();
                    }
                    7u64
                });
                for _ in 0..n {
                    tokio::task::yield_now().await;
                }
                {
                    let (m, c) = &*pair;
                    *m.lock().unwrap() = true;
                    c.notify_all();
                }
                h.await.unwrap() == 7
            }
            3 => {
                // the simulator thread itself has to wait: the closure holds a lock while it
                // waits for a message, the async side sends the message and takes the lock
                let m = Arc::new(Mutex::new(0u64));
                let m2 = m.clone();
                let (tx, rx) = mpsc::channel::<u64>();
                let (started_tx, started_rx) = mpsc::channel::<()>();
                let h = tokio::task::spawn_blocking(move || {
                    let mut g = m2.lock().unwrap();
                    let _ = started_tx.send(());
                    *g = rx.recv().unwrap();
                });
                // wait (asynchronously) until the closure holds the lock
                // (a timer, not a spin: under the lazy schedule queued closures only start
                // when the main task is idle)
                while started_rx.try_recv().is_err() {
                    tokio::time::sleep(std::time::Duration::from_millis(1)).await;
                }
                tx.send(n).unwrap();
                let seen = *m.lock().unwrap();
                h.await.unwrap();
                seen == n
            }
            4 => {
                // a timed wait that nobody satisfies: virtual time passes, no real time
                let (_tx, rx) = mpsc::channel::<u64>();
                let t0 = simkit::now_ns();
                let h = tokio::task::spawn_blocking(move || rx.recv_timeout(std::time::Duration::from_millis(40 * n)).is_err());
                let timed_out = h.await.unwrap();
                timed_out && simkit::now_ns() - t0 >= 40_000_000 * n
            }
            _ => {
                // detached digest worker whose handle is dropped: the runtime waits for it at
                // shutdown once its channel is closed
                let (tx, rx) = mpsc::channel::<u64>();
                let o2 = obs.clone();
                drop(tokio::task::spawn_blocking(move || {
                    while let Ok(v) = rx.recv() {
                        o2.lock().unwrap().push(v);
                    }
                    o2.lock().unwrap().push(1000);
                }));
                for i in 0..n {
                    tx.send(i).unwrap();
                    tokio::task::yield_now().await;
                }
                true
            }
        }
    });
    let seen = observed.lock().unwrap().clone();
    match r {
        Ok(simkit::exec::End::Done(true)) => {
            if which == 5 {
                // the closure may not have been started at all (dropped at shutdown), but if it
                // ran, it ran to its end
                let ok = seen.is_empty() || (seen.last() == Some(&1000) && seen.len() as u64 == n + 1);
                if !ok {
                    ctx.fail("block-selftest:detached", format!("{:?}", seen));
                }
            }
        }
        other => ctx.fail("block-selftest", format!("scenario {} n {}: {:?}", which, n, other.map(|e| format!("{:?}", e.kind())))),
    }
    // a closure nobody will ever wake: the command must end as a deadlock, not hang the worker
    if which == 0 && n == 1 {
        let blocked_before = simkit::with(|s| s.counters.get("sim:closure-blocked").copied().unwrap_or(0));
        let r = crate::cli::run_async(async {
            let (tx, rx) = mpsc::channel::<u64>();
            std::mem::forget(tx);
            drop(tokio::task::spawn_blocking(move || rx.recv().is_ok()));
            tokio::task::yield_now().await;
            tokio::task::yield_now().await;
        });
        let started = simkit::with(|s| s.counters.get("sim:closure-blocked").copied().unwrap_or(0)) > blocked_before;
        match r {
            Ok(simkit::exec::End::Deadlock) => {}
            Ok(simkit::exec::End::Done(())) if !started => {}
            other => ctx.fail("block-selftest:never-woken", format!("{:?}", other.map(|e| format!("{:?}", e.kind())))),
        }
    }
    ctx.verdict.nontrivial = true;
    ctx.verdict.shape = simkit::with(|s| s.sched_hash);
}
