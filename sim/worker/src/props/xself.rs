//! Self-test scenarios (not properties of bita): they make statements about the simulator.

use std::collections::HashMap;

use crate::harness::Ctx;

/// HashMap iteration order must be a function of the tape (std seeds RandomState from the
/// interposed getrandom, once per thread; every run is a fresh thread).
pub fn hashorder(ctx: &mut Ctx) {
    let mut m: HashMap<u32, u32> = HashMap::new();
    for i in 0..24 {
        m.insert(i * 7919, i);
    }
    let order: Vec<u32> = m.values().copied().collect();
    let mut h = 0u64;
    for v in &order {
        h = h.wrapping_mul(31).wrapping_add(*v as u64);
    }
    simkit::with(|s| s.event("hash-order", h, 0));
    ctx.verdict.nontrivial = true;
    ctx.verdict.shape = h;
    if ctx.want_sample {
        ctx.verdict.sample = Some(serde_json::json!({"iteration_order": order}));
    }
}

/// Cross-check scenario: a fault-free CLI compress + clone whose inputs, arguments and results
/// are dumped so that the real `bita` binary can be run on the same files (tools/crosscheck.py).
pub fn cross(ctx: &mut Ctx) {
    use crate::gen;
    use crate::scen;
    let Some(dir) = std::env::var_os("BITASIM_DUMPDIR") else { return };
    let mut spec = scen::gen_compress_spec(true, false);
    spec.metadata = scen::cli_safe_metadata(&spec.metadata);
    spec.verbose = 0;
    let max_len = if spec.comp.expensive() { spec.cfg.expected_avg().saturating_mul(16).max(64) } else { 64 * 1024 };
    let (_, data) = gen::gen_source(&spec.cfg, max_len);
    scen::put_file("src.bin", &data);
    scen::set_stdin(None);
    scen::draw_schedule();
    let cargs = scen::compress_args(&spec, Some("src.bin"), "a.cba", false);
    let r = scen::run(&cargs);
    if !r.outcome.is_success() {
        ctx.fail("cross-compress", r.outcome.short());
        return;
    }
    let with_seed = gen::chance(1, 2);
    let mut opts = scen::CloneOpts { buffers: gen::gen_buffers(), verify_output: gen::chance(1, 3), ..Default::default() };
    if with_seed {
        let (_, sd) = gen::gen_seed_data(&data, spec.cfg.edit_unit());
        scen::put_file("seed0.bin", &sd);
        opts.seeds.push("seed0.bin".into());
    }
    scen::draw_schedule();
    let kargs = scen::clone_args("a.cba", "out.bin", &opts);
    let r = scen::run(&kargs);
    if !r.outcome.is_success() {
        ctx.fail("cross-clone", r.outcome.short());
        return;
    }
    // dump
    let id = simkit::with(|s| s.trace_hash);
    let out = std::path::Path::new(&dir).join(format!("{:016x}", id));
    scen::quiet(|| {
        let _ = std::fs::create_dir_all(&out);
        for f in ["src.bin", "seed0.bin", "a.cba", "out.bin"] {
            if let Ok(d) = std::fs::read(f) {
                let _ = std::fs::write(out.join(f), d);
            }
        }
        for (i, _) in spec.metadata.iter().enumerate() {
            let f = format!("meta{}.bin", i);
            if let Ok(d) = std::fs::read(&f) {
                let _ = std::fs::write(out.join(&f), d);
            }
        }
        let _ = std::fs::write(out.join("args.json"), serde_json::json!({"compress": cargs, "clone": kargs}).to_string());
    });
    ctx.verdict.nontrivial = true;
}

/// tokio::spawn / join! / timeout on the simulator's executor.
pub fn spawn(ctx: &mut Ctx) {
    crate::scen::draw_schedule();
    let r = crate::cli::run_async(async {
        let mut hs = Vec::new();
        for i in 0..4u64 {
            hs.push(tokio::spawn(async move {
                let a = tokio::task::spawn_blocking(move || i * 10).await.unwrap();
                tokio::time::sleep(std::time::Duration::from_millis(5 * (4 - i))).await;
                let b = tokio::task::spawn_blocking(move || a + 1).await.unwrap();
                b
            }));
        }
        let mut out = Vec::new();
        for h in hs {
            out.push(h.await.unwrap());
        }
        let (x, y) = tokio::join!(async { 1 }, async { 2 });
        let t = tokio::time::timeout(std::time::Duration::from_secs(1), tokio::time::sleep(std::time::Duration::from_secs(5))).await;
        let p = tokio::spawn(async { panic!("boom") }).await;
        (out, x + y, t.is_err(), p.is_err())
    });
    match r {
        Ok(simkit::exec::End::Done((out, 3, true, true))) if out == vec![1, 11, 21, 31] => {}
        other => ctx.fail("spawn-selftest", format!("{:?}", other.map(|e| format!("{:?}", e.kind())))),
    }
    ctx.verdict.nontrivial = true;
    ctx.verdict.shape = simkit::with(|s| s.sched_hash);
}
