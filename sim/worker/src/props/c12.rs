//! C12 — compress is deterministic: the same source and options give byte-identical archives
//! from each writer, whatever the schedule, the buffered-chunks count and the way the input
//! is delivered.

use std::sync::Arc;

use serde_json::json;

use crate::gen;
use crate::harness::{Ctx, Tier};
use crate::props::c01::compress_with;
use crate::scen;

pub fn run(ctx: &mut Ctx) {
    let big = gen::chance(1, if ctx.tier == crate::harness::Tier::Thorough { 50 } else { 800 });
    let mut spec = scen::gen_compress_spec(true, big);
    spec.metadata = scen::cli_safe_metadata(&spec.metadata);
    let max_len = if big { 3 << 20 } else { 48 * 1024 };
    let max_len = gen::len_cap(spec.comp, &spec.cfg, max_len);
    let (mut sspec, mut data) = gen::gen_source(&spec.cfg, max_len);
    // one run in 25: a chunk of several hundred KiB up to a few MiB is still open when the input
    // ends (rolling hash, large average, cheap compression, 0.3-3 MiB of input). That is where
    // "how much the chunker looked at per call" and "how the bytes were delivered" could leak into
    // the chunk list: whole-file reads against 64 KiB pipe reads against the library's slices.
    if !big && gen::chance(1, 25) {
        let (cfg, comp, len) = gen::t(|t| {
            let bits = 17 + t.draw(5);
            let avg = 1usize << (bits + 1);
            let window = *t.pick(&[16usize, 32, 48, 64, 20]);
            let min = *t.pick(&[0usize, 1, 4096, 65536, 300_000]).min(&avg);
            let max = avg.max(*t.pick(&[1usize << 20, 2 << 20, 4 << 20, 16 << 20, (1 << 20) + 1]));
            let algo = if t.chance(1, 2) { gen::Algo::RollSum } else { gen::Algo::BuzHash };
            let comp = *t.pick(&[gen::Comp::None, gen::Comp::None, gen::Comp::Zstd(1), gen::Comp::Brotli(1)]);
            (gen::Cfg { algo, window, min, max, bits, avg }, comp, 300_000 + t.draw(2_700_000) as usize)
        });
        spec.cfg = cfg;
        spec.comp = comp;
        sspec = gen::gen_source_spec(len);
        data = gen::expand(&sspec);
        // half of them: a low-entropy stretch and then a little ordinary data, as at the end of
        // a disk image
        if gen::chance(1, 2) {
            let tail = gen::draw(64 * 1024) as usize;
            let fill = gen::t(|t| *t.pick(&[0u8, 0, 0xff, 0x20]));
            let start = gen::draw((data.len() / 4) as u32 + 1) as usize;
            let end = data.len().saturating_sub(tail).max(start);
            data[start..end].iter_mut().for_each(|b| *b = fill);
            sspec.kind = "long-run-then-tail";
        }
        gen::cap_chunks(&spec.cfg, &mut sspec, &mut data);
        simkit::count("probe:long-open-chunk-at-end-of-input");
    }
    let source = Arc::new(data);
    let k_cli = 2 + gen::draw(3);
    let k_lib = 2 + gen::draw(2);
    let desc = json!({"options": spec.json(), "source": sspec.json(), "cli_runs": k_cli, "lib_runs": k_lib});
    if ctx.want_sample {
        ctx.verdict.sample = Some(desc.clone());
    }
    // one zstd run in three: the library has compressed the same source at ANOTHER level earlier
    // in this process (on the same pool thread). Nothing of that call may show in a later archive
    let mut warm: Option<(u32, Vec<u8>)> = None;
    if let gen::Comp::Zstd(l2) = spec.comp {
        if gen::chance(1, 3) {
            let l1 = gen::t(|t| *t.pick(&[1u32, 2, 3, 5, 7, 9]));
            if l1 != l2 {
                let mut s = spec.clone();
                s.comp = gen::Comp::Zstd(l1);
                let (_, outcome, archive, _, _) = compress_with(&s, &source, 2);
                if !outcome.is_success() {
                    ctx.fail(&format!("compress-outcome:{}", outcome.class()), format!("lib (zstd level {}) ended with {}; {}", l1, outcome.short(), desc));
                    return;
                }
                simkit::count("probe:earlier-compression-at-another-level");
                warm = Some((l1, archive));
            }
        }
    }
    // one run in eight: the same CLI command is started twice, the second while the first is at
    // work (a double click, a cron job overtaking itself). Without --force-create at most one of
    // them may report success, and what it leaves is the archive of an undisturbed run
    let duplicate_at = if gen::chance(1, 8) { Some(gen::draw(k_cli)) } else { None };
    let mut first: [Option<(Vec<u8>, String)>; 2] = [None, None];
    let mut runs = Vec::new();
    let mut temp_name: Option<String> = None;
    for i in 0..(k_cli + k_lib) {
        let lib = i >= k_cli;
        let writer = if lib { 2 } else { gen::draw(2) };
        let mut s = spec.clone();
        s.buffers = gen::gen_buffers();
        s.verbose = simkit::with(|t| t.tape.weighted(&[6, 2, 1])) as u32;
        // a leftover of an earlier compression that was killed or failed: bita's temporary chunk
        // file (its name is taken from what the first CLI run was seen to create), longer than
        // anything this run will put into it. The archive must not inherit a byte of it
        if !lib && i > 0 && gen::chance(1, 5) {
            if let Some(t) = &temp_name {
                let junk = vec![0xC3u8; source.len() * 2 + 4096 + gen::draw(3000) as usize];
                scen::put_file(t, &junk);
                simkit::count("probe:stale-temp-file-before-compress");
            }
        }
        if !lib && duplicate_at == Some(i) {
            if let Some((a0, how0)) = &first[0] {
                scen::draw_schedule();
                scen::quiet(|| {
                    let _ = std::fs::remove_file("a.cba");
                });
                scen::put_file("src.bin", &source);
                scen::set_stdin(None);
                let args = scen::compress_args(&s, Some("src.bin"), "a.cba", false);
                let delay = match gen::draw(4) {
                    0 => gen::draw(4),
                    1 => gen::draw(40),
                    _ => gen::draw(400),
                };
                if let Some((oa, ob)) = crate::cli::run_cli_pair(&args, &args, delay) {
                    simkit::count("probe:same-compress-command-twice-at-once");
                    let left = scen::get_file("a.cba");
                    let how = format!("two `bita compress` for the same output at once, the second {} steps later: {} / {}", delay, oa.short(), ob.short());
                    for o in [&oa, &ob] {
                        if matches!(o, crate::cli::Outcome::Panic(_) | crate::cli::Outcome::Deadlock | crate::cli::Outcome::StepBudget) {
                            ctx.fail(&format!("compress-outcome:{}", o.class()), format!("{}; {}", how, desc));
                            return;
                        }
                    }
                    if oa.is_success() && ob.is_success() {
                        ctx.fail("duplicate-both-succeed", format!("{}: both report success although neither was told to overwrite; {}", how, desc));
                        return;
                    }
                    if (oa.is_success() || ob.is_success()) && left.as_deref() != Some(&a0[..]) {
                        ctx.fail(
                            "cli-archives-differ",
                            format!("{}: the one that succeeded left {} where an undisturbed run [{}] gave {} (first difference at {:?}); {}", how, left.as_deref().map(gen::fp).unwrap_or_else(|| "no file".into()), how0, gen::fp(a0), left.as_deref().and_then(|l| gen::first_diff(a0, l)), desc),
                        );
                        return;
                    }
                    if !oa.is_success() && !ob.is_success() {
                        simkit::count("duplicate-commands-both-failed");
                    }
                    runs.push(how);
                    continue;
                }
            }
        }
        let (wname, outcome, archive, sched, short) = compress_with(&s, &source, writer);
        if !lib && temp_name.is_none() {
            temp_name = crate::sys::with(|st| {
                st.log.iter().filter(|e| e.op == crate::sys::Op::Open && e.a & libc::O_CREAT as i64 != 0 && e.ret >= 0).map(|e| st.path_name(e.path).to_string()).find(|p| p != "a.cba" && p != "src.bin" && !p.starts_with('/'))
            });
        }
        let how = format!("{} buffered-chunks={} schedule={} short_reads={}%", wname, s.buffers, sched, short);
        if !outcome.is_success() {
            ctx.fail(&format!("compress-outcome:{}", outcome.class()), format!("{} ended with {}; {}", how, outcome.short(), desc));
            return;
        }
        runs.push(how.clone());
        let slot = &mut first[lib as usize];
        match slot {
            None => *slot = Some((archive, how)),
            Some((a0, how0)) => {
                if *a0 != archive {
                    ctx.fail(
                        if lib { "lib-archives-differ" } else { "cli-archives-differ" },
                        format!("two compressions of the same source and options differ at byte {:?} ({} vs {}): [{}] vs [{}]; {}", gen::first_diff(a0, &archive), gen::fp(a0), gen::fp(&archive), how0, how, desc),
                    );
                    return;
                }
            }
        }
    }
    if let (Some((l1, _)), Some((a, how)), gen::Comp::Zstd(l2)) = (&warm, &first[1], spec.comp) {
        use crate::refmodel::format::{decode_archive, ref_chunk};
        if let Ok(ra) = decode_archive(a) {
            let enc = |chunk: &[u8], level: u32| {
                let mut out = Vec::new();
                zstd::stream::copy_encode(chunk, &mut out, level as i32).map(|_| out).ok()
            };
            // (the first three stored chunks are enough: a leak of the earlier level shows in all of them)
            for (i, d) in ra.dict.descriptors.iter().enumerate().take(3) {
                if d.archive_size == d.source_size {
                    continue;
                }
                let from = (ra.chunk_data_offset + d.archive_offset) as usize;
                let Some(stored) = a.get(from..from + d.archive_size as usize) else { continue };
                let Ok(chunk) = ref_chunk(&ra, a, i) else { continue };
                let (Some(e1), Some(e2)) = (enc(&chunk, *l1), enc(&chunk, l2)) else { continue };
                if e1 == e2 {
                    continue;
                }
                if stored == &e1[..] {
                    ctx.fail(
                        "options-of-an-earlier-call",
                        format!("[{}] chunk #{} is stored as zstd level {} would compress it, the level of an earlier create_archive in this process, not as level {} which the options and the header say; {}", how, i, l1, l2, desc),
                    );
                    return;
                }
                if stored == &e2[..] {
                    simkit::count("probe:chunk-equals-fresh-encode-at-declared-level");
                }
            }
        }
    }
    let n = first[0].as_ref().map(|(a, _)| a.len()).unwrap_or(0) as u64;
    ctx.verdict.nontrivial = source.len() > spec.cfg.expected_avg();
    ctx.verdict.shape = n ^ ((k_cli as u64) << 40) ^ ((k_lib as u64) << 48);
}
