//! C12 — compress is deterministic: the same source and options give byte-identical archives
//! from each writer, whatever the schedule, the buffered-chunks count and the way the input
//! is delivered.

use std::sync::Arc;

use serde_json::json;

use crate::gen;
use crate::harness::{Ctx, Tier};
use crate::props::c01::compress_with;
use crate::scen;

pub fn run(ctx: &mut Ctx) {
    let big = gen::chance(1, if ctx.tier == crate::harness::Tier::Thorough { 50 } else { 800 });
    let mut spec = scen::gen_compress_spec(true, big);
    spec.metadata = scen::cli_safe_metadata(&spec.metadata);
    let max_len = if big { 3 << 20 } else { 48 * 1024 };
    let max_len = if spec.comp.expensive() { max_len.min(spec.cfg.expected_avg().saturating_mul(16).max(64)) } else { max_len };
    let (sspec, data) = gen::gen_source(&spec.cfg, max_len);
    let source = Arc::new(data);
    let k_cli = 2 + gen::draw(3);
    let k_lib = 2 + gen::draw(2);
    let desc = json!({"options": spec.json(), "source": sspec.json(), "cli_runs": k_cli, "lib_runs": k_lib});
    if ctx.want_sample {
        ctx.verdict.sample = Some(desc.clone());
    }
    let mut first: [Option<(Vec<u8>, String)>; 2] = [None, None];
    let mut runs = Vec::new();
    for i in 0..(k_cli + k_lib) {
        let lib = i >= k_cli;
        let writer = if lib { 2 } else { gen::draw(2) };
        let mut s = spec.clone();
        s.buffers = gen::gen_buffers();
        s.verbose = simkit::with(|t| t.tape.weighted(&[6, 2, 1])) as u32;
        let (wname, outcome, archive, sched, short) = compress_with(&s, &source, writer);
        let how = format!("{} buffered-chunks={} schedule={} short_reads={}%", wname, s.buffers, sched, short);
        if !outcome.is_success() {
            ctx.fail(&format!("compress-outcome:{}", outcome.class()), format!("{} ended with {}; {}", how, outcome.short(), desc));
            return;
        }
        runs.push(how.clone());
        let slot = &mut first[lib as usize];
        match slot {
            None => *slot = Some((archive, how)),
            Some((a0, how0)) => {
                if *a0 != archive {
                    ctx.fail(
                        if lib { "lib-archives-differ" } else { "cli-archives-differ" },
                        format!("two compressions of the same source and options differ at byte {:?} ({} vs {}): [{}] vs [{}]; {}", gen::first_diff(a0, &archive), gen::fp(a0), gen::fp(&archive), how0, how, desc),
                    );
                    return;
                }
            }
        }
    }
    let n = first[0].as_ref().map(|(a, _)| a.len()).unwrap_or(0) as u64;
    ctx.verdict.nontrivial = source.len() > spec.cfg.expected_avg();
    ctx.verdict.shape = n ^ ((k_cli as u64) << 40) ^ ((k_lib as u64) << 48);
}
