//! C07 — adjacent missing chunks are fetched with a single range request: the ordered list
//! of chunk-data Range headers that reach the server equals the maximal runs of adjacent
//! missing chunks in archive (descriptor) order, each exactly `bytes=<first>-<last>`.

use std::collections::BTreeSet;
use std::sync::Arc;

use bitar::archive_reader::HttpReader;
use bitar::{Archive, ChunkIndex, HashSum};
use futures_util::StreamExt;
use serde_json::json;
use simkit::exec::End;

use crate::cli::run_async;
use crate::gen;
use crate::harness::{Ctx, Tier};
use crate::net;
use crate::props::c01::make_archive;
use crate::props::clonefam;
use crate::refmodel::format::{decode_archive, RefArchive};
use crate::scen::{self, URL};

/// the Range strings a conforming client sends for this set of descriptors
pub fn expected_requests(ra: &RefArchive, fetch: &BTreeSet<usize>) -> Vec<String> {
    let mut runs: Vec<(u64, u64)> = Vec::new();
    for (i, d) in ra.dict.descriptors.iter().enumerate() {
        if !fetch.contains(&i) {
            continue;
        }
        let start = ra.chunk_data_offset + d.archive_offset;
        let end = start + d.archive_size as u64; // exclusive
        if let Some(last) = runs.last_mut() {
            if last.1 == start {
                last.1 = end;
                continue;
            }
        }
        runs.push((start, end));
    }
    runs.iter().map(|(a, b)| format!("bytes={}-{}", a, b - 1)).collect()
}

pub fn header_requests(ra: &RefArchive) -> Vec<String> {
    vec!["bytes=0-13".to_string(), format!("bytes=14-{}", ra.header_len - 1)]
}

/// The chunk-data requests of a log: everything that is not a read inside the header region
/// (how the header is fetched -- in how many requests, with which bounds -- is not C07's
/// business, only C06's byte accounting looks at it).
pub fn chunk_data_requests(ra: &RefArchive, log: &[crate::net::LoggedRequest]) -> Vec<String> {
    log.iter()
        .filter(|l| match l.parsed {
            Some((_, b)) => b >= ra.header_len as u64,
            None => true,
        })
        .map(|l| l.range.clone().unwrap_or_default())
        .collect()
}

pub fn run(ctx: &mut Ctx) {
    if gen::chance(1, 3) {
        run_cli(ctx);
    } else {
        run_subset(ctx);
    }
}

fn run_cli(ctx: &mut Ctx) {
    let Some(mut f) = clonefam::generate(ctx, clonefam::Which::C06) else { return };
    f.http = true;
    let ob = clonefam::execute(&f);
    if !ob.outcome.as_ref().map(|o| o.is_success()).unwrap_or(false) {
        simkit::count("inconclusive-clone-failed");
        return;
    }
    let ex = clonefam::expect(&f);
    if ex.collision || clonefam::truncated_twins(&f.ra) {
        simkit::count("hash-collision-exempt");
        return;
    }
    let want = expected_requests(&f.ra, &ex.fetch);
    let got = chunk_data_requests(&f.ra, &ob.http_log);
    if want != got {
        let i = want.iter().zip(got.iter()).position(|(a, b)| a != b).unwrap_or(want.len().min(got.len()));
        ctx.fail("request-list-clone", format!("request #{} is {:?}, expected {:?} ({} requests, expected {}); {}", i, got.get(i), want.get(i), got.len(), want.len(), f.desc));
        return;
    }
    ctx.verdict.nontrivial = want.len() >= 2;
    ctx.verdict.shape = want.len() as u64 ^ (1 << 40);
}

fn run_subset(ctx: &mut Ctx) {
    // (a run of adjacent chunks of more than a MiB as stored needs a source of MiBs)
    let big = gen::chance(1, if ctx.tier == crate::harness::Tier::Thorough { 50 } else { 150 });
    // a third of the archives comes from the independent encoder: gaps, permuted storage and
    // (here only) descriptors listed in an order other than first occurrence
    let m = if gen::chance(1, 3) {
        let cfg = gen::gen_config(false, false);
        let comp = gen::gen_compression();
        let comp = if comp.expensive() { gen::Comp::None } else { comp };
        let hash_len = gen::gen_hash_length();
        let (sspec, data) = gen::gen_source(&cfg, 32 * 1024);
        let enc = crate::refmodel::encoder::encode_with(&data, &cfg, comp, hash_len, &Default::default(), gen::chance(1, 2));
        simkit::count("archive-from-independent-encoder");
        crate::props::c01::Made {
            spec: scen::CompressSpec { cfg, comp, hash_len, buffers: 1, metadata: Default::default(), verbose: 0 },
            source: Arc::new(data),
            archive: enc.archive,
            writer: "ref-encoder",
            desc: json!({"encoding": enc.desc, "source": sspec.json()}),
        }
    } else {
        let Some(m) = make_archive(ctx, if big { 3 << 20 } else { 48 * 1024 }, big, Some(2)) else { return };
        m
    };
    let ra = match decode_archive(&m.archive) {
        Ok(a) => a,
        Err(e) => {
            ctx.fail("archive-undecodable", format!("{}", e));
            return;
        }
    };
    let n = ra.dict.descriptors.len();
    // a drawn subset of the descriptors: uniform for small archives, density-driven otherwise
    let subset: BTreeSet<usize> = simkit::with(|s| {
        let t = &mut s.tape;
        if n <= 12 {
            let bits = t.draw(1u32 << n);
            (0..n).filter(|i| bits >> i & 1 == 1).collect()
        } else {
            let p = *t.pick(&[8u32, 1, 4, 12, 15, 16]);
            (0..n).filter(|_| t.chance(p, 16)).collect()
        }
    });
    let hl = m.spec.hash_len;
    let mut index = ChunkIndex::new_empty(hl);
    for &i in &subset {
        let d = &ra.dict.descriptors[i];
        index.add_chunk(HashSum::from(&d.checksum[..]), d.source_size as usize, &[0]);
    }
    // truncated-hash twins: a descriptor outside the subset that shares its stored checksum with
    // one inside is (correctly) requested as well
    let inside: BTreeSet<&[u8]> = subset.iter().map(|&i| &ra.dict.descriptors[i].checksum[..]).collect();
    let fetch: BTreeSet<usize> = (0..n).filter(|i| inside.contains(&ra.dict.descriptors[*i].checksum[..])).collect();
    let mut srv = net::Server::new(Arc::new(m.archive.clone()));
    srv.frag = net::draw_body_frag();
    srv.max_delay_ns = net::draw_delay();
    let server = net::install(srv);
    scen::draw_schedule();
    let desc = json!({"archive": m.desc, "descriptors": n, "subset": subset.iter().collect::<Vec<_>>()});
    if ctx.want_sample {
        ctx.verdict.sample = Some(desc.clone());
    }
    let want_items = fetch.len();
    // a request that carries a (generous) timeout is fetched exactly like one without
    let with_timeout = gen::chance(1, 3);
    if with_timeout {
        simkit::count("probe:benign-http-timeout");
    }
    let r = run_async(async move {
        let reader = if with_timeout {
            HttpReader::from_request(reqwest::Client::new().get(URL).timeout(std::time::Duration::from_secs(86_400)))
        } else {
            HttpReader::from_url(URL.parse().unwrap())
        };
        let mut ar = Archive::try_init(reader).await.map_err(|_| "try_init".to_string())?;
        let mut st = ar.chunk_stream(&index);
        let mut got = 0usize;
        while let Some(r) = st.next().await {
            let c = r.map_err(|e| format!("chunk_stream: {}", e))?;
            c.decompress().map_err(|e| format!("decompress: {}", e))?.verify().map_err(|e| format!("verify: {}", e))?;
            got += 1;
        }
        Ok::<usize, String>(got)
    });
    let log = server.lock().unwrap().log.clone();
    net::uninstall();
    match r {
        Ok(End::Done(Ok(got))) if got == want_items => {}
        Ok(End::Done(Ok(got))) => {
            ctx.fail("item-count", format!("chunk_stream yielded {} chunks for a subset of {}; {}", got, want_items, desc));
            return;
        }
        Ok(End::Done(Err(e))) => {
            ctx.fail("stream-error", format!("fetching a subset failed without any fault: {}; {}", e, desc));
            return;
        }
        Ok(e) => {
            ctx.fail(&format!("stream-{}", e.kind()), format!("fetching a subset ended with {}; {}", e.kind(), desc));
            return;
        }
        Err(p) => {
            ctx.fail(&format!("stream-panic@{}", p.split(' ').next().unwrap_or("?")), format!("fetching a subset panicked at {}; {}", p, desc));
            return;
        }
    }
    let want = expected_requests(&ra, &fetch);
    let got = chunk_data_requests(&ra, &log);
    if want != got {
        let i = want.iter().zip(got.iter()).position(|(a, b)| a != b).unwrap_or(want.len().min(got.len()));
        ctx.fail("request-list", format!("request #{} is {:?}, expected {:?} ({} requests, expected {}); {}", i, got.get(i), want.get(i), got.len(), want.len(), desc));
        return;
    }
    ctx.verdict.nontrivial = want.len() >= 2 && subset.len() < n;
    // the subset pattern itself is the shape
    let mut h = n as u64;
    for i in &subset {
        h = h.wrapping_mul(0x0000_0100_0000_01B3) ^ (*i as u64);
    }
    ctx.verdict.shape = h;
}
