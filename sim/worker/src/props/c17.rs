//! C17 — any archive conforming to the documented format is cloned correctly: archives are
//! produced by the independent encoder (refmodel::encoder), not by bita's writer.

use std::collections::BTreeMap;
use std::sync::Arc;

use bitar::archive_reader::IoReader;
use bitar::Archive;
use serde_json::json;
use simkit::exec::End;

use crate::cli::run_async;
use crate::gen;
use crate::harness::{Ctx, Tier};
use crate::props::c01::Made;
use crate::props::c07::{chunk_data_requests, expected_requests};
use crate::props::clonefam::{self, Which};
use crate::refmodel::encoder::encode;
use crate::scen::CompressSpec;
use crate::simio::SimFile;

pub fn run(ctx: &mut Ctx) {
    let big = gen::chance(1, if ctx.tier == crate::harness::Tier::Thorough { 50 } else { 600 });
    let cfg = gen::gen_config(false, big);
    let comp = gen::gen_compression();
    let hash_len = gen::gen_hash_length();
    let metadata = gen::gen_metadata();
    let max_len = if big { 3 << 20 } else { 48 * 1024 };
    let max_len = gen::len_cap(comp, &cfg, max_len);
    let (sspec, data) = gen::gen_source(&cfg, max_len);
    let enc = encode(&data, &cfg, comp, hash_len, &metadata);
    let desc = json!({"encoding": enc.desc, "source": sspec.json()});
    if ctx.want_sample {
        ctx.verdict.sample = Some(desc.clone());
    }
    let spec = CompressSpec { cfg, comp, hash_len, buffers: 1, metadata: metadata.clone(), verbose: 0 };
    // 1. opened and reported
    {
        let reader = IoReader::new(SimFile::drawn(enc.archive.clone()));
        let cfg_want = cfg.to_config();
        let comp_want = comp.to_bitar();
        let meta_want: BTreeMap<String, Vec<u8>> = metadata.clone();
        let d = enc.dict.clone();
        let (hlen, cdo) = (enc.header_len, enc.chunk_data_offset);
        let r = run_async(async move {
            let ar = match Archive::try_init(reader).await {
                Ok(a) => a,
                Err(bitar::ArchiveError::InvalidArchive(e)) => return Err(format!("try_init: invalid archive: {}", e)),
                Err(bitar::ArchiveError::ReaderError(e)) => return Err(format!("try_init: reader error: {}", e)),
            };
            if ar.chunker_config() != &cfg_want {
                return Err(format!("chunker_config() = {:?}", ar.chunker_config()));
            }
            if ar.chunk_hash_length() != hash_len {
                return Err(format!("chunk_hash_length() = {}", ar.chunk_hash_length()));
            }
            if ar.chunk_compression() != comp_want {
                return Err(format!("chunk_compression() = {:?}", ar.chunk_compression()));
            }
            if ar.total_source_size() != d.source_total_size || ar.source_checksum().slice() != &d.source_checksum[..] {
                return Err("source size / checksum differ".into());
            }
            if ar.header_size() != hlen || ar.chunk_data_offset() != cdo {
                return Err(format!("header_size() = {} chunk_data_offset() = {} (encoded {} / {})", ar.header_size(), ar.chunk_data_offset(), hlen, cdo));
            }
            if ar.total_chunks() != d.rebuild_order.len() || ar.unique_chunks() != d.descriptors.len() {
                return Err(format!("total_chunks() = {} unique_chunks() = {}", ar.total_chunks(), ar.unique_chunks()));
            }
            if ar.built_with_version() != d.application_version {
                return Err(format!("built_with_version() = {:?}", ar.built_with_version()));
            }
            let got: BTreeMap<String, Vec<u8>> = ar.metadata_iter().map(|(k, v)| (k.to_string(), v.to_vec())).collect();
            if got != meta_want {
                return Err("metadata differs".into());
            }
            for (i, (cd, rd)) in ar.chunk_descriptors().iter().zip(d.descriptors.iter()).enumerate() {
                if cd.checksum.slice() != &rd.checksum[..] || cd.archive_size != rd.archive_size as usize || cd.archive_offset != cdo + rd.archive_offset || cd.source_size != rd.source_size {
                    return Err(format!("descriptor {} reported differently", i));
                }
            }
            Ok(())
        });
        match r {
            Ok(End::Done(Ok(()))) => {}
            Ok(End::Done(Err(e))) => {
                ctx.fail("open-or-report", format!("a conforming archive is not opened / reported as encoded: {}; {}", e, desc));
                return;
            }
            Ok(e) => {
                ctx.fail(&format!("open-{}", e.kind()), format!("opening a conforming archive ended with {}; {}", e.kind(), desc));
                return;
            }
            Err(p) => {
                ctx.fail(&format!("open-panic@{}", p.split(' ').next().unwrap_or("?")), format!("opening a conforming archive panicked at {}; {}", p, desc));
                return;
            }
        }
    }
    // 2. cloned: through the whole scenario family
    {
        // different chunks colliding under a short hash cannot be described by any archive
        let mut seen = std::collections::HashSet::new();
        if enc.dict.descriptors.iter().any(|d| !seen.insert(d.checksum.clone())) {
            simkit::count("hash-collision-exempt");
            return;
        }
    }
    let made = Made { spec, source: Arc::new(data), archive: enc.archive, writer: "ref-encoder", desc: desc.clone() };
    let Some(f) = clonefam::generate_from(ctx, Which::C06, made) else { return };
    let ob = clonefam::execute(&f);
    if !clonefam::check_output(ctx, &f, &ob) {
        return;
    }
    if f.level2 && !f.blockdev && ob.output.as_ref().map(|o| o.len()) != Some(f.made.source.len()) {
        ctx.fail("file-length", format!("regular output file length differs from the source length; {}", f.desc));
        return;
    }
    // 3. over HTTP the requests are still the maximal adjacent runs for this layout
    if f.http {
        let ex = clonefam::expect(&f);
        if !ex.collision && !clonefam::truncated_twins(&f.ra) {
            let want = expected_requests(&f.ra, &ex.fetch);
            let got = chunk_data_requests(&f.ra, &ob.http_log);
            if want != got {
                let i = want.iter().zip(got.iter()).position(|(a, b)| a != b).unwrap_or(want.len().min(got.len()));
                ctx.fail("request-list", format!("request #{} is {:?}, expected {:?} for this layout; {}", i, got.get(i), want.get(i), f.desc));
                return;
            }
        }
    }
    let n = f.ra.dict.descriptors.len() as u64;
    ctx.verdict.nontrivial = n >= 2;
    let mut h = n;
    for b in desc["encoding"].to_string().bytes() {
        h = h.wrapping_mul(0x0000_0100_0000_01B3) ^ b as u64;
    }
    ctx.verdict.shape = h;
}
