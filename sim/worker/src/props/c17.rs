//! C17 — any archive conforming to the documented format is cloned correctly: archives are
//! produced by the independent encoder (refmodel::encoder), not by bita's writer.

use std::collections::BTreeMap;
use std::sync::Arc;

use bitar::archive_reader::IoReader;
use bitar::Archive;
use serde_json::json;
use simkit::exec::End;

use crate::cli::run_async;
use crate::gen;
use crate::harness::{Ctx, Tier};
use crate::props::c01::Made;
use crate::props::c07::{chunk_data_requests, expected_requests};
use crate::props::clonefam::{self, Which};
use crate::refmodel::encoder::encode;
use crate::scen::CompressSpec;
use crate::simio::SimFile;

/// Header-only archives that declare sources of many GiB (descriptors of up to 4 GiB - 1, the
/// field's range): nothing of that size can be cloned here, but everything the reader derives
/// from the dictionary -- source offsets, totals, the source index -- is 64-bit arithmetic that
/// can be checked without the data.
fn huge_declared_sizes(ctx: &mut Ctx) {
    use crate::refmodel::format::{build_header, encode_dict, EncodeStyle, RefDesc, RefDict, MAGIC};
    let n = 2 + gen::draw(4) as usize;
    let hash_len = gen::gen_hash_length().max(8);
    let sizes: Vec<u32> = (0..n).map(|_| gen::t(|t| *t.pick(&[u32::MAX, 1 << 31, 3 << 30, (1 << 30) + 1, 0xF000_0001, 65536]))).collect();
    let descriptors: Vec<RefDesc> = (0..n)
        .map(|i| RefDesc { checksum: gen::blake2b512(&[i as u8, 0x77])[..hash_len].to_vec(), archive_size: 100 + i as u32, archive_offset: (0..i).map(|k| 100 + k as u64).sum(), source_size: sizes[i] })
        .collect();
    let m = n + gen::draw(4) as usize;
    let mut order: Vec<u32> = (0..n as u32).collect();
    while order.len() < m {
        order.push(gen::draw(n as u32));
    }
    let total: u64 = order.iter().map(|&i| sizes[i as usize] as u64).sum();
    let dict = RefDict {
        application_version: "0.13.0".into(),
        source_checksum: gen::blake2b512(b"nobody will ever check"),
        source_total_size: total,
        params: Some(crate::refmodel::encoder::params_of(&gen::Cfg::fixed(65536), hash_len)),
        compression: Some((0, 0)),
        rebuild_order: order.clone(),
        descriptors: descriptors.clone(),
        metadata: Default::default(),
        unknown_fields: 0,
    };
    let dict_bytes = encode_dict(&dict, &EncodeStyle::default());
    let archive = build_header(MAGIC, &dict_bytes, None);
    let desc = json!({"header_only": true, "declared_source_sizes": sizes, "rebuild_order": order, "declared_total": total});
    if ctx.want_sample {
        ctx.verdict.sample = Some(desc.clone());
    }
    let reader = IoReader::new(SimFile::drawn(archive));
    let want_offsets: Vec<u64> = order
        .iter()
        .scan(0u64, |o, &i| {
            let at = *o;
            *o += sizes[i as usize] as u64;
            Some(at)
        })
        .collect();
    let (order2, descriptors2, want2) = (order.clone(), descriptors.clone(), want_offsets.clone());
    let r = run_async(async move {
        let ar = Archive::try_init(reader).await.map_err(|e| format!("try_init: {}", e))?;
        if ar.total_source_size() != total {
            return Err(format!("total_source_size() = {}", ar.total_source_size()));
        }
        let got: Vec<(u64, Vec<u8>)> = ar.iter_source_chunks().map(|(o, cd)| (o, cd.checksum.slice().to_vec())).collect();
        let want: Vec<(u64, Vec<u8>)> = order2.iter().zip(want2.iter()).map(|(&i, &o)| (o, descriptors2[i as usize].checksum.clone())).collect();
        if got != want {
            return Err(format!("iter_source_chunks() offsets {:?}, expected {:?}", got.iter().map(|g| g.0).collect::<Vec<_>>(), want2));
        }
        let index = ar.build_source_index();
        for (k, d) in descriptors2.iter().enumerate() {
            let mut w: Vec<u64> = order2.iter().zip(want2.iter()).filter(|(&i, _)| i as usize == k).map(|(_, &o)| o).collect();
            w.sort_unstable();
            let mut g: Vec<u64> = index.offsets(&bitar::HashSum::from(&d.checksum[..])).map(|it| it.collect()).unwrap_or_default();
            g.sort_unstable();
            if g != w {
                return Err(format!("build_source_index(): chunk {} at {:?}, expected {:?}", k, g, w));
            }
        }
        Ok(())
    });
    match r {
        Ok(End::Done(Ok(()))) => {}
        Ok(End::Done(Err(e))) => {
            ctx.fail("open-or-report", format!("a conforming header is not opened / reported as encoded: {}; {}", e, desc));
            return;
        }
        Ok(e) => {
            ctx.fail(&format!("open-{}", e.kind()), format!("opening a conforming header ended with {}; {}", e.kind(), desc));
            return;
        }
        Err(p) => {
            ctx.fail(&format!("open-panic@{}", p.split(' ').next().unwrap_or("?")), format!("opening a conforming header panicked at {}; {}", p, desc));
            return;
        }
    }
    simkit::count("probe:header-only-huge-declared-sizes");
    ctx.verdict.nontrivial = true;
    ctx.verdict.shape = total ^ (m as u64) << 48;
}

pub fn run(ctx: &mut Ctx) {
    if gen::chance(1, 40) {
        return huge_declared_sizes(ctx);
    }
    let big = gen::chance(1, if ctx.tier == crate::harness::Tier::Thorough { 50 } else { 600 });
    let cfg = gen::gen_config(false, big);
    let comp = gen::gen_compression();
    let hash_len = gen::gen_hash_length();
    let metadata = gen::gen_metadata();
    let max_len = if big { 3 << 20 } else { 48 * 1024 };
    let max_len = gen::len_cap(comp, &cfg, max_len);
    let (sspec, data) = gen::gen_source(&cfg, max_len);
    let enc = encode(&data, &cfg, comp, hash_len, &metadata);
    let desc = json!({"encoding": enc.desc, "source": sspec.json()});
    if ctx.want_sample {
        ctx.verdict.sample = Some(desc.clone());
    }
    let spec = CompressSpec { cfg, comp, hash_len, buffers: 1, metadata: metadata.clone(), verbose: 0 };
    // 1. opened and reported
    {
        let reader = IoReader::new(SimFile::drawn(enc.archive.clone()));
        let cfg_want = cfg.to_config();
        let comp_want = comp.to_bitar();
        let meta_want: BTreeMap<String, Vec<u8>> = metadata.clone();
        let d = enc.dict.clone();
        let (hlen, cdo) = (enc.header_len, enc.chunk_data_offset);
        let header_sum: Vec<u8> = enc.archive[hlen - 64..hlen].to_vec();
        let r = run_async(async move {
            let ar = match Archive::try_init(reader).await {
                Ok(a) => a,
                Err(bitar::ArchiveError::InvalidArchive(e)) => return Err(format!("try_init: invalid archive: {}", e)),
                Err(bitar::ArchiveError::ReaderError(e)) => return Err(format!("try_init: reader error: {}", e)),
            };
            if ar.chunker_config() != &cfg_want {
                return Err(format!("chunker_config() = {:?}", ar.chunker_config()));
            }
            if ar.chunk_hash_length() != hash_len {
                return Err(format!("chunk_hash_length() = {}", ar.chunk_hash_length()));
            }
            // (the level is compared through Debug: the fields are private, and the encoder may
            // have recorded a level bita's own writer would never choose)
            let level_recorded = d.compression.map(|c| c.1).unwrap_or(0);
            match (ar.chunk_compression(), comp_want) {
                (None, None) => {}
                (Some(got), Some(want)) => {
                    let (g, w) = (format!("{:?}", got), format!("{:?}", want));
                    let algo = |s: &str| s.split("algorithm:").nth(1).and_then(|r| r.split(',').next()).map(|a| a.trim().to_string());
                    if algo(&g) != algo(&w) || !g.contains(&format!("level: {}", level_recorded)) {
                        return Err(format!("chunk_compression() = {} (encoded: {} with recorded level {})", g, w, level_recorded));
                    }
                }
                (g, _) => return Err(format!("chunk_compression() = {:?}", g)),
            }
            if ar.total_source_size() != d.source_total_size || ar.source_checksum().slice() != &d.source_checksum[..] {
                return Err("source size / checksum differ".into());
            }
            if ar.header_size() != hlen || ar.chunk_data_offset() != cdo {
                return Err(format!("header_size() = {} chunk_data_offset() = {} (encoded {} / {})", ar.header_size(), ar.chunk_data_offset(), hlen, cdo));
            }
            let stored: u64 = d.descriptors.iter().map(|x| x.archive_size as u64).sum();
            if ar.compressed_size() != stored {
                return Err(format!("compressed_size() = {}, the stored chunks have {} bytes", ar.compressed_size(), stored));
            }
            if ar.header_checksum().slice() != &header_sum[..] {
                return Err("header_checksum() differs from the checksum stored in the header".into());
            }
            {
                let mut o = 0u64;
                for (k, (at, cd)) in ar.iter_source_chunks().enumerate() {
                    let want = &d.descriptors[d.rebuild_order[k] as usize];
                    if at != o || cd.checksum.slice() != &want.checksum[..] {
                        return Err(format!("iter_source_chunks(): item {} is at {} (expected {}) / another chunk", k, at, o));
                    }
                    o += want.source_size as u64;
                }
            }
            for (k, v) in meta_want.iter() {
                if ar.metadata_value(k) != Some(&v[..]) {
                    return Err(format!("metadata_value({:?}) differs", k));
                }
            }
            if ar.total_chunks() != d.rebuild_order.len() || ar.unique_chunks() != d.descriptors.len() {
                return Err(format!("total_chunks() = {} unique_chunks() = {}", ar.total_chunks(), ar.unique_chunks()));
            }
            if ar.built_with_version() != d.application_version {
                return Err(format!("built_with_version() = {:?}", ar.built_with_version()));
            }
            let got: BTreeMap<String, Vec<u8>> = ar.metadata_iter().map(|(k, v)| (k.to_string(), v.to_vec())).collect();
            if got != meta_want {
                return Err("metadata differs".into());
            }
            for (i, (cd, rd)) in ar.chunk_descriptors().iter().zip(d.descriptors.iter()).enumerate() {
                if cd.checksum.slice() != &rd.checksum[..] || cd.archive_size != rd.archive_size as usize || cd.archive_offset != cdo + rd.archive_offset || cd.source_size != rd.source_size {
                    return Err(format!("descriptor {} reported differently", i));
                }
            }
            Ok(())
        });
        match r {
            Ok(End::Done(Ok(()))) => {}
            Ok(End::Done(Err(e))) => {
                ctx.fail("open-or-report", format!("a conforming archive is not opened / reported as encoded: {}; {}", e, desc));
                return;
            }
            Ok(e) => {
                ctx.fail(&format!("open-{}", e.kind()), format!("opening a conforming archive ended with {}; {}", e.kind(), desc));
                return;
            }
            Err(p) => {
                ctx.fail(&format!("open-panic@{}", p.split(' ').next().unwrap_or("?")), format!("opening a conforming archive panicked at {}; {}", p, desc));
                return;
            }
        }
    }
    // 2. cloned: through the whole scenario family
    {
        // different chunks colliding under a short hash cannot be described by any archive
        let mut seen = std::collections::HashSet::new();
        if enc.dict.descriptors.iter().any(|d| !seen.insert(d.checksum.clone())) {
            simkit::count("hash-collision-exempt");
            return;
        }
    }
    let made = Made { spec, source: Arc::new(data), archive: enc.archive, writer: "ref-encoder", desc: desc.clone() };
    let Some(f) = clonefam::generate_from(ctx, Which::C06, made) else { return };
    let ob = clonefam::execute(&f);
    if !clonefam::check_output(ctx, &f, &ob) {
        return;
    }
    if f.level2 && !f.blockdev && ob.output.as_ref().map(|o| o.len()) != Some(f.made.source.len()) {
        ctx.fail("file-length", format!("regular output file length differs from the source length; {}", f.desc));
        return;
    }
    // 3. over HTTP the requests are still the maximal adjacent runs for this layout
    if f.http {
        let ex = clonefam::expect(&f);
        if !ex.collision && !clonefam::truncated_twins(&f.ra) {
            let want = expected_requests(&f.ra, &ex.fetch);
            let got = chunk_data_requests(&f.ra, &ob.http_log);
            if want != got {
                let i = want.iter().zip(got.iter()).position(|(a, b)| a != b).unwrap_or(want.len().min(got.len()));
                ctx.fail("request-list", format!("request #{} is {:?}, expected {:?} for this layout; {}", i, got.get(i), want.get(i), f.desc));
                return;
            }
        }
    }
    let n = f.ra.dict.descriptors.len() as u64;
    ctx.verdict.nontrivial = n >= 2;
    let mut h = n;
    for b in desc["encoding"].to_string().bytes() {
        h = h.wrapping_mul(0x0000_0100_0000_01B3) ^ b as u64;
    }
    ctx.verdict.shape = h;
}
