//! C15 — untrusted archives / servers yield errors, never panics, aborts or unbounded work.
//! Inputs: random bytes, prefixes and bit flips of valid archives, structurally valid headers
//! with a re-computed checksum and one to three mutated fields, misbehaving servers. Each
//! input is inspected (`bita info`) and cloned plain, with a seed (so the chunker runs on
//! attacker-chosen parameters) and in place, locally and over HTTP.
//! Oracle: every command ends in Success or a reported error. A panic, a dead worker, an
//! exhausted step / yield budget, or a single allocation larger than 64 MiB + 4 x the largest
//! chunk size the archive declares is a violation. The worker is built with overflow checks.

use std::sync::Arc;

use serde_json::json;

use crate::alloc;
use crate::cli::Outcome;
use crate::gen::{self, Comp};
use crate::harness::Ctx;
use crate::net::{self, NetFault};
use crate::refmodel::encoder::{encode, trusted_compress};
use crate::refmodel::format::{build_header, encode_dict, EncodeStyle, RefDesc, RefDict, MAGIC};
use crate::scen::{self, CloneOpts};

const MAX_DECLARED: u32 = 16 << 20;

struct Input {
    bytes: Vec<u8>,
    what: String,
    /// largest chunk size (stored or source) the header declares, capped
    declared: usize,
    server_fault: Option<NetFault>,
    source_hint: Vec<u8>,
    /// declares a stored chunk size that a local reader would legitimately allocate and fill
    /// (hundreds of MiB to 4 GiB): only given to the HTTP reader, which buffers what arrives
    http_only: bool,
}

fn rebuild(dict: &RefDict, data: &[u8], cdo_override: Option<u64>, dict_bytes_override: Option<Vec<u8>>) -> Vec<u8> {
    let db = dict_bytes_override.unwrap_or_else(|| encode_dict(dict, &EncodeStyle::default()));
    let mut a = build_header(MAGIC, &db, cdo_override);
    debug_assert!(cdo_override.is_some() || a.len() == 14 + db.len() + 72);
    a.extend_from_slice(data);
    a
}

fn gen_input() -> Input {
    // a small valid base archive from the independent encoder
    let cfg = gen::gen_config(false, false);
    let comp = gen::gen_compression();
    let hash_len = gen::gen_hash_length();
    let comp = if comp.expensive() { Comp::Brotli(2) } else { comp };
    let (_, data) = gen::gen_source(&cfg, 6 * 1024);
    let enc = encode(&data, &cfg, comp, hash_len, &gen::gen_metadata());
    let base = enc.archive.clone();
    // the stored chunks without the slack in front of them: `rebuild` puts them right behind
    // the new header and points the chunk data offset there
    let chunk_data = base[enc.chunk_data_offset as usize..].to_vec();
    let declared0 = enc.dict.descriptors.iter().map(|d| d.source_size.max(d.archive_size) as usize).max().unwrap_or(0);
    let kind = gen::t(|t| t.weighted(&[2, 2, 3, 12, 3]));
    match kind {
        0 => {
            let n = *gen::t(|t| t.pick(&[64usize, 0, 1, 5, 6, 13, 14, 15, 86, 300, 5000]));
            let mut b = vec![0u8; n];
            simkit::prng::Rng::new(gen::t(|t| t.seed64())).fill(&mut b);
            if gen::chance(1, 2) && n >= 6 {
                b[..6].copy_from_slice(MAGIC);
            }
            Input { bytes: b, what: format!("random-bytes:{}", n), declared: 0, server_fault: None, source_hint: data, http_only: false }
        }
        1 => {
            let n = gen::draw(base.len() as u32 + 1) as usize;
            Input { bytes: base[..n].to_vec(), what: "prefix-of-valid-archive".into(), declared: declared0, server_fault: None, source_hint: data, http_only: false }
        }
        2 if gen::chance(1, 4) => {
            // the dictionary size field (not covered by any checksum when it is read) set to
            // values on the edges of the arithmetic done with it
            let mut b = base.clone();
            let real = (enc.header_len - 14 - 72) as u64;
            let v = *gen::t(|t| {
                t.pick(&[u64::MAX, u64::MAX - 13, u64::MAX - 14, u64::MAX - 71, u64::MAX - 72, u64::MAX - 85, u64::MAX - 86, 1 << 63, (1 << 63) - 1, 1 << 32, 1 << 40, 0, 1, 7])
            });
            let v = if gen::chance(1, 6) { real + 1 } else if gen::chance(1, 6) { real.saturating_sub(1) } else { v };
            b[6..14].copy_from_slice(&v.to_le_bytes());
            Input { bytes: b, what: "dictionary-size-extreme".into(), declared: declared0, server_fault: None, source_hint: data, http_only: false }
        }
        2 => {
            let mut b = base.clone();
            let byte = if gen::chance(1, 3) { 6 + gen::draw(8) as usize } else { gen::draw(b.len() as u32) as usize };
            let bit = gen::draw(8);
            b[byte] ^= 1 << bit;
            let region = if (6..14).contains(&byte) { "dictionary-size" } else if byte < enc.header_len { "header" } else { "payload" };
            Input { bytes: b, what: format!("bit-flip:{}", region), declared: declared0, server_fault: None, source_hint: data, http_only: false }
        }
        3 => {
            let mut d = enc.dict.clone();
            let mut cdo: Option<u64> = None; // None = right behind the new header
            let mut names: Vec<String> = Vec::new();
            let mut http_only = false;
            let mut data_region = chunk_data.clone();
            let mut dict_override: Option<Vec<u8>> = None;
            let n_mut = 1 + gen::t(|t| t.weighted(&[6, 2, 1]));
            for _ in 0..n_mut {
                let m = gen::draw(22);
                let nd = d.descriptors.len();
                let pick_desc = |d: &mut RefDict| -> Option<usize> {
                    if d.descriptors.is_empty() {
                        d.descriptors.push(RefDesc { checksum: vec![1; 8], archive_size: 4, archive_offset: 0, source_size: 4 });
                        d.rebuild_order.push(0);
                    }
                    Some(gen::draw(d.descriptors.len() as u32) as usize)
                };
                match m {
                    0 => {
                        cdo = Some(*gen::t(|t| t.pick(&[0u64, 1, 14, u64::MAX, u64::MAX - 1, 1 << 63, 1 << 40])));
                        names.push("chunk-data-offset".into());
                    }
                    1 => {
                        let v = [nd as u32, nd as u32 + 1, u32::MAX, 1 << 31][gen::draw(4) as usize];
                        if d.rebuild_order.is_empty() || gen::chance(1, 2) {
                            d.rebuild_order.push(v);
                        } else {
                            let i = gen::draw(d.rebuild_order.len() as u32) as usize;
                            d.rebuild_order[i] = v;
                        }
                        names.push("rebuild-index-out-of-range".into());
                    }
                    2 => {
                        d.rebuild_order.clear();
                        names.push("rebuild-order-empty".into());
                    }
                    3 => {
                        let i = pick_desc(&mut d).unwrap();
                        d.descriptors[i].archive_size = *gen::t(|t| t.pick(&[0u32, 1, MAX_DECLARED, 70000, 0, 1, (64 << 20) + 1, 1 << 30, u32::MAX]));
                        if d.descriptors[i].archive_size > MAX_DECLARED {
                            http_only = true;
                        }
                        names.push(format!("archive-size:{}", d.descriptors[i].archive_size));
                    }
                    4 => {
                        let i = pick_desc(&mut d).unwrap();
                        d.descriptors[i].archive_offset = *gen::t(|t| t.pick(&[u64::MAX, u64::MAX - 3, 1 << 63, 1 << 40, 1 << 20]));
                        names.push("archive-offset".into());
                    }
                    5 => {
                        let i = pick_desc(&mut d).unwrap();
                        d.descriptors[i].source_size = *gen::t(|t| t.pick(&[0u32, 1, MAX_DECLARED, 70000]));
                        names.push(format!("source-size:{}", d.descriptors[i].source_size));
                    }
                    6 => {
                        let i = pick_desc(&mut d).unwrap();
                        let l = *gen::t(|t| t.pick(&[0usize, 1, 3, 63, 65, 200]));
                        d.descriptors[i].checksum = vec![0xAB; l];
                        names.push(format!("checksum-length:{}", l));
                    }
                    7 => {
                        if let Some(p) = d.params.as_mut() {
                            p.window = *gen::t(|t| t.pick(&[0u32, 1, u32::MAX, 1 << 31, 70000]));
                            if p.algorithm == 2 {
                                p.algorithm = gen::draw(2);
                            }
                            names.push(format!("window:{}", p.window));
                        }
                    }
                    8 => {
                        if let Some(p) = d.params.as_mut() {
                            p.min = p.max.saturating_add(1 + gen::draw(100));
                            if p.algorithm == 2 {
                                p.algorithm = gen::draw(2);
                            }
                            names.push("min>max".into());
                        }
                    }
                    9 => {
                        if let Some(p) = d.params.as_mut() {
                            p.max = 0;
                            names.push(if p.algorithm == 2 { "fixed-size:0".into() } else { "max:0".into() });
                        }
                    }
                    10 => {
                        if let Some(p) = d.params.as_mut() {
                            p.filter_bits = *gen::t(|t| t.pick(&[0u32, 31, 32, 33, 255, u32::MAX]));
                            if p.algorithm == 2 {
                                p.algorithm = gen::draw(2);
                            }
                            names.push(format!("filter-bits:{}", p.filter_bits));
                        }
                    }
                    11 => {
                        if let Some(p) = d.params.as_mut() {
                            p.hash_length = *gen::t(|t| t.pick(&[0u32, 1, 65, 1000, u32::MAX]));
                            names.push(format!("hash-length:{}", p.hash_length));
                        }
                    }
                    12 => {
                        if let Some(p) = d.params.as_mut() {
                            p.algorithm = *gen::t(|t| t.pick(&[3u32, 255, u32::MAX, 1 << 31]));
                            names.push("algorithm-enum".into());
                        }
                    }
                    13 => {
                        d.compression = Some((*gen::t(|t| t.pick(&[4u32, 255, u32::MAX])), gen::draw(30)));
                        names.push("compression-enum".into());
                    }
                    14 => {
                        if let Some(c) = d.compression.as_mut() {
                            c.1 = *gen::t(|t| t.pick(&[0u32, 100, u32::MAX]));
                            names.push("compression-level".into());
                        }
                    }
                    15 => {
                        d.params = None;
                        names.push("params-missing".into());
                    }
                    16 => {
                        d.compression = None;
                        names.push("compression-missing".into());
                    }
                    17 => {
                        d.source_total_size = *gen::t(|t| t.pick(&[0u64, 1, 1 << 40, 1 << 62]));
                        names.push("source-total-size".into());
                    }
                    18 => {
                        // compression bomb: a tiny payload that inflates far beyond its declared size
                        let bomb_len = *gen::t(|t| t.pick(&[100usize << 20, 200 << 20, 5 << 20]));
                        let c = match d.compression.map(|c| c.0) {
                            Some(2) => Comp::Zstd(3),
                            Some(1) => Comp::Lzma(1),
                            _ => {
                                d.compression = Some((3, 5));
                                Comp::Brotli(5)
                            }
                        };
                        let payload = trusted_compress(c, &vec![0u8; bomb_len]);
                        let off = data_region.len() as u64;
                        let rel = off;
                        data_region.extend_from_slice(&payload);
                        d.descriptors.push(RefDesc { checksum: vec![0x42; 16], archive_size: payload.len() as u32, archive_offset: rel, source_size: 1000 });
                        d.rebuild_order.push((d.descriptors.len() - 1) as u32);
                        names.push(format!("compression-bomb:{}MiB", bomb_len >> 20));
                    }
                    19 => {
                        // dictionary bytes damaged but consistently sized and summed
                        let mut db = encode_dict(&d, &EncodeStyle::default());
                        match gen::draw(3) {
                            0 => {
                                db.pop();
                            }
                            1 => db.push(0x08),
                            _ => {
                                if !db.is_empty() {
                                    let i = gen::draw(db.len() as u32) as usize;
                                    db[i] = gen::draw(256) as u8;
                                }
                            }
                        }
                        dict_override = Some(db);
                        names.push("dictionary-bytes-damaged".into());
                    }
                    20 => {
                        if nd >= 1 {
                            let c = d.descriptors[0].clone();
                            d.descriptors.push(c);
                            d.rebuild_order.push((d.descriptors.len() - 1) as u32);
                            names.push("duplicate-descriptor".into());
                        }
                    }
                    _ => {
                        d.application_version = "\u{0}v".repeat(gen::draw(2000) as usize);
                        names.push("version-string".into());
                    }
                }
            }
            if let Some(i) = names.iter().position(|n| n.starts_with("source-total-size")) {
                let _ = i;
            }
            // the rolling window is a size the header declares too (4 bytes per entry for BuzHash)
            let window = d.params.as_ref().map(|p| (p.window as usize).saturating_mul(4)).unwrap_or(0);
            let declared = d.descriptors.iter().map(|x| x.source_size.max(x.archive_size) as usize).max().unwrap_or(0).max(declared0).max(window);
            let bytes = rebuild(&d, &data_region, cdo, dict_override);
            names.sort();
            names.dedup();
            Input { bytes, what: format!("field:{}", names.join("+")), declared, server_fault: None, source_hint: data, http_only }
        }
        _ => {
            let fault = gen::t(|t| match t.draw(12) {
                8 => NetFault::Endless,
                9 => NetFault::CutAfter(0),
                10 => NetFault::Refuse,
                11 => NetFault::CutAfter(1 + t.draw(40) as usize),
                6 | 7 => NetFault::LieContentLength(*t.pick(&[u64::MAX, 1 << 63, (1 << 63) - 1, 1 << 62, 1 << 40, 1 << 36, 0, 1])),
                0 => NetFault::Extra(1 + t.draw(100) as usize),
                1 => NetFault::Extra(1 << 20),
                2 => NetFault::ErrorPage,
                3 => NetFault::Empty,
                4 => NetFault::IgnoreRange,
                _ => NetFault::Extra(100 << 20),
            });
            Input { bytes: base, what: format!("server:{:?}", fault).split('(').next().unwrap().to_string() + &format!("{:?}", fault).replace(|c: char| c.is_ascii_digit(), ""), declared: declared0, server_fault: Some(fault), source_hint: data, http_only: false }
        }
    }
}

pub fn run(ctx: &mut Ctx) {
    let inp = gen_input();
    let http = inp.server_fault.is_some() || gen::chance(1, 3) || inp.http_only;
    let limit = (64usize << 20).saturating_add(inp.declared.saturating_mul(4));
    let ops: Vec<&str> = match gen::draw(4) {
        0 => vec!["info", "clone"],
        1 => vec!["clone-seed"],
        2 => vec!["clone-in-place"],
        _ => vec!["info", "clone-seed", "clone-in-place"],
    };
    let desc = json!({"input": inp.what, "len": inp.bytes.len(), "transport": if http { "http" } else { "local" }, "ops": ops, "declared_max_chunk": inp.declared});
    if ctx.want_sample {
        ctx.verdict.sample = Some(desc.clone());
    }
    simkit::with(|s| {
        s.step_budget = 400_000;
        s.count(match inp.what.split(':').next().unwrap_or("") {
            "random-bytes" => "fault:RandomBytes",
            "prefix-of-valid-archive" => "fault:Truncation",
            "bit-flip" => "fault:BitFlip",
            "dictionary-size-extreme" => "fault:DictionarySizeExtreme",
            "field" => "fault:FieldMutationValidChecksum",
            _ => "fault:MisbehavingServer",
        });
    });
    let content = Arc::new(inp.bytes.clone());
    for op in ops {
        scen::quiet(|| {
            let _ = std::fs::remove_file("out.bin");
            let _ = std::fs::remove_file("a.cba");
        });
        let server = if http {
            let s = scen::serve(content.clone());
            if let Some(f) = &inp.server_fault {
                // misbehave on one request (header or chunk data), or on all of them
                let mut g = s.lock().unwrap();
                let mode = gen::draw(3);
                if mode == 0 {
                    // a server that never recovers
                    g.default_fault = Some(f.clone());
                } else if mode == 1 {
                    // the header is served properly, every chunk data request misbehaves for ever
                    g.script = vec![None, None];
                    g.default_fault = Some(f.clone());
                } else {
                    let at = gen::draw(4) as usize;
                    let mut sc = vec![None; at];
                    sc.push(Some(f.clone()));
                    g.script = sc;
                }
            }
            Some(s)
        } else {
            scen::put_file("a.cba", &inp.bytes);
            None
        };
        scen::set_stdin(None);
        scen::draw_schedule();
        alloc::reset();
        let archive_arg = if http { scen::URL } else { "a.cba" };
        // retries (with a delay in virtual time) must still end against a server that never recovers
        let retries = if http { gen::draw(4) } else { 0 };
        let retry_delay = if retries > 0 { *gen::t(|t| t.pick(&[0u64, 0, 1, 10])) } else { 0 };
        let args: Vec<String> = match op {
            "info" => crate::cli::args(&["bita", "info", archive_arg]),
            "clone" => scen::clone_args("a.cba", "out.bin", &CloneOpts { http, buffers: gen::gen_buffers(), retries, retry_delay, ..Default::default() }),
            "clone-seed" => {
                scen::put_file("seed0.bin", &inp.source_hint);
                scen::clone_args("a.cba", "out.bin", &CloneOpts { http, buffers: gen::gen_buffers(), seeds: vec!["seed0.bin".into()], retries, retry_delay, ..Default::default() })
            }
            _ => {
                let mut prior = inp.source_hint.clone();
                prior.rotate_left(inp.source_hint.len() / 3);
                scen::put_file("out.bin", &prior);
                scen::clone_args("a.cba", "out.bin", &CloneOpts { http, buffers: gen::gen_buffers(), seed_output: true, retries, retry_delay, ..Default::default() })
            }
        };
        let r = scen::run(&args);
        if server.is_some() {
            net::uninstall();
        }
        let big = alloc::big_max();
        simkit::with(|s| {
            s.count(match &r.outcome {
                Outcome::Success => "outcome:success",
                Outcome::Error(_) | Outcome::Usage(_) => "outcome:error",
                _ => "outcome:other",
            })
        });
        // a panic in a blocking task is a panic, even though tokio hands it to the caller as a
        // JoinError and the process ends with an ordinary error message
        if let Some(p) = &r.inner_panic {
            ctx.fail(
                &format!("Panic@{}(in a blocking task)", p.split(' ').next().unwrap_or("?")),
                format!("bita {} on an untrusted archive ({}) panicked in a blocking task at {} and ended with {}; {}", op, inp.what, p, r.outcome.short(), desc),
            );
            return;
        }
        match &r.outcome {
            Outcome::Success | Outcome::Error(_) | Outcome::Usage(_) => {}
            other => {
                ctx.fail(
                    &other.class(),
                    format!("bita {} on an untrusted archive ({}) ended with {}; {}", op, inp.what, other.short(), desc),
                );
                return;
            }
        }
        if big > limit {
            ctx.fail(
                &format!("unbounded-allocation:{}", inp.what.split(':').next().unwrap_or("?")),
                format!("bita {} made a single allocation of {} bytes; the archive declares chunks of at most {} bytes (limit {}); {}", op, big, inp.declared, limit, desc),
            );
            return;
        }
    }
    ctx.verdict.nontrivial = true;
    let mut h = inp.bytes.len() as u64;
    for b in inp.what.bytes() {
        h = h.wrapping_mul(0x0000_0100_0000_01B3) ^ b as u64;
    }
    ctx.verdict.shape = h;
}
