//! Global allocator of the worker: the system allocator, except that requests of 32 MiB and
//! more are recorded (C15's "allocates without bound" oracle looks at the largest one) and
//! served by mmap(MAP_NORESERVE), so that a reader that reserves a terabyte because a header
//! said so keeps running (it never touches the pages) instead of aborting the worker.

use std::alloc::{GlobalAlloc, Layout, System};
use std::sync::atomic::{AtomicUsize, Ordering};

pub const BIG: usize = 32 << 20;
/// live bytes in big allocations above which further big requests are refused (the process
/// then aborts; the orchestrator attributes the death to the run it had announced)
pub const LIVE_CAP: usize = 40 << 30;

pub static BIG_MAX: AtomicUsize = AtomicUsize::new(0);
pub static BIG_COUNT: AtomicUsize = AtomicUsize::new(0);
pub static LIVE_BIG: AtomicUsize = AtomicUsize::new(0);

pub struct SimAlloc;

unsafe fn big_alloc(size: usize) -> *mut u8 {
    BIG_MAX.fetch_max(size, Ordering::Relaxed);
    BIG_COUNT.fetch_add(1, Ordering::Relaxed);
    // terabyte reservations are fine (never touched); what is refused is real growth
    if size < (1 << 36) && LIVE_BIG.load(Ordering::Relaxed).saturating_add(size) > LIVE_CAP {
        return std::ptr::null_mut();
    }
    let p = libc::mmap(std::ptr::null_mut(), size, libc::PROT_READ | libc::PROT_WRITE, libc::MAP_PRIVATE | libc::MAP_ANONYMOUS | libc::MAP_NORESERVE, -1, 0);
    if p == libc::MAP_FAILED {
        return std::ptr::null_mut();
    }
    if size < (1 << 36) {
        LIVE_BIG.fetch_add(size, Ordering::Relaxed);
    }
    p as *mut u8
}

unsafe fn big_free(ptr: *mut u8, size: usize) {
    libc::munmap(ptr as *mut libc::c_void, size);
    if size < (1 << 36) {
        LIVE_BIG.fetch_sub(size, Ordering::Relaxed);
    }
}

unsafe impl GlobalAlloc for SimAlloc {
    unsafe fn alloc(&self, layout: Layout) -> *mut u8 {
        if layout.size() >= BIG {
            big_alloc(layout.size())
        } else {
            System.alloc(layout)
        }
    }
    unsafe fn dealloc(&self, ptr: *mut u8, layout: Layout) {
        if layout.size() >= BIG {
            big_free(ptr, layout.size())
        } else {
            System.dealloc(ptr, layout)
        }
    }
    unsafe fn alloc_zeroed(&self, layout: Layout) -> *mut u8 {
        if layout.size() >= BIG {
            big_alloc(layout.size()) // fresh anonymous pages are zero
        } else {
            System.alloc_zeroed(layout)
        }
    }
    unsafe fn realloc(&self, ptr: *mut u8, layout: Layout, new_size: usize) -> *mut u8 {
        if layout.size() < BIG && new_size < BIG {
            return System.realloc(ptr, layout, new_size);
        }
        let new_layout = Layout::from_size_align_unchecked(new_size, layout.align());
        let np = self.alloc(new_layout);
        if !np.is_null() {
            std::ptr::copy_nonoverlapping(ptr, np, layout.size().min(new_size));
            self.dealloc(ptr, layout);
        }
        np
    }
}

#[global_allocator]
static GLOBAL: SimAlloc = SimAlloc;

/// reset the per-run statistics; returns nothing
pub fn reset() {
    BIG_MAX.store(0, Ordering::Relaxed);
    BIG_COUNT.store(0, Ordering::Relaxed);
}

pub fn big_max() -> usize {
    BIG_MAX.load(Ordering::Relaxed)
}
