//! L1 seams: in-memory `AsyncRead` / `AsyncWrite` / `AsyncSeek` objects whose every poll is
//! a simulator decision (fragment size, Pending, fault) and whose every operation is logged.

use std::io::{self, SeekFrom};
use std::pin::Pin;
use std::sync::{Arc, Mutex};
use std::task::{Context, Poll};

use tokio::io::{AsyncRead, AsyncSeek, AsyncWrite, ReadBuf};

/// How a reader fragments its data.
#[derive(Clone, Copy, Debug, PartialEq, Eq)]
pub enum Frag {
    /// as much as fits in the caller's buffer
    Whole,
    /// at most k bytes per read
    Fixed(usize),
    /// 1..=k bytes per read, drawn each time
    Random(usize),
}

pub fn draw_frag() -> Frag {
    simkit::with(|s| match s.tape.weighted(&[4, 2, 2, 2, 1, 1]) {
        0 => Frag::Whole,
        1 => Frag::Fixed(1 + s.tape.draw(16) as usize),
        2 => Frag::Random(1 + s.tape.draw(64) as usize),
        3 => Frag::Random(1 + s.tape.draw(8192) as usize),
        4 => Frag::Fixed(*s.tape.pick(&[1usize, 2, 3, 4095, 4096, 4097, 65536, 1 << 20, (1 << 20) - 1, (1 << 20) + 1])),
        _ => Frag::Random(1 + s.tape.draw(1 << 20) as usize),
    })
}

/// pending probability as x/16
pub fn draw_pending16() -> u32 {
    simkit::with(|s| *s.tape.pick(&[0u32, 0, 0, 2, 8]))
}

/// `total`: length of the whole object; tiny fragments are for small objects (at most ~2000
/// reads per object, or the step budget is spent on the harness's own fragmentation)
fn frag_len(frag: Frag, avail: usize, room: usize, total: usize) -> usize {
    let max = avail.min(room);
    if max == 0 {
        return 0;
    }
    let floor = total / 2000;
    match frag {
        Frag::Whole => max,
        Frag::Fixed(k) => max.min(k.max(1).max(floor)),
        Frag::Random(k) => {
            let k = k.max(1).min(max);
            (floor + 1 + simkit::draw(k as u32) as usize).min(max)
        }
    }
}

/// A read-only byte source.
pub struct SimSource {
    data: Arc<Vec<u8>>,
    pos: usize,
    frag: Frag,
    pending16: u32,
    /// fail with this error kind once `fail_at` bytes have been delivered
    pub fail_at: Option<(usize, io::ErrorKind)>,
    /// further faults after `fail_at` has fired, in ascending position: the source goes on
    /// delivering after each of them (transient errors)
    pub more_faults: Vec<(usize, io::ErrorKind)>,
    pub reads: u64,
}

impl SimSource {
    /// bytes this source will deliver
    pub fn len(&self) -> usize {
        self.data.len()
    }
    pub fn new(data: Arc<Vec<u8>>, frag: Frag, pending16: u32) -> Self {
        SimSource { data, pos: 0, frag, pending16, fail_at: None, more_faults: Vec::new(), reads: 0 }
    }
    pub fn drawn(data: Arc<Vec<u8>>) -> Self {
        let frag = draw_frag();
        let p = draw_pending16();
        Self::new(data, frag, p)
    }
    pub fn plain(data: Arc<Vec<u8>>) -> Self {
        Self::new(data, Frag::Whole, 0)
    }
}

impl AsyncRead for SimSource {
    fn poll_read(mut self: Pin<&mut Self>, cx: &mut Context<'_>, buf: &mut ReadBuf<'_>) -> Poll<io::Result<()>> {
        simkit::exec::yield_point();
        let avail = self.data.len() - self.pos;
        if avail > 0 && self.pending16 > 0 && simkit::chance(self.pending16, 16) {
            simkit::count("src-pending");
            cx.waker().wake_by_ref();
            return Poll::Pending;
        }
        if let Some((at, kind)) = self.fail_at {
            if self.pos >= at {
                self.fail_at = if self.more_faults.is_empty() { None } else { Some(self.more_faults.remove(0)) };
                simkit::count("fault:src-read-error");
                return Poll::Ready(Err(kind.into()));
            }
        }
        let mut n = frag_len(self.frag, avail, buf.remaining(), self.data.len());
        if let Some((at, _)) = self.fail_at {
            n = n.min(at - self.pos).max(if at > self.pos { 1 } else { 0 });
        }
        let pos = self.pos;
        buf.put_slice(&self.data[pos..pos + n]);
        self.pos += n;
        self.reads += 1;
        simkit::with(|s| s.event("src-read", pos as u64, n as u64));
        Poll::Ready(Ok(()))
    }
}

#[derive(Clone, Debug, PartialEq, Eq)]
pub enum FileOp {
    Read { pos: u64, len: usize },
    Write { pos: u64, data: Vec<u8> },
    Seek { to: u64 },
    Flush,
}

#[derive(Clone, Debug, PartialEq, Eq)]
pub enum WriteFault {
    /// the k-th write call fails with this kind, nothing written
    Error(io::ErrorKind),
    /// the k-th write call writes this many bytes and then the process dies
    Crash(usize),
    /// the k-th write call takes only a prefix (a legal short write), the call after it fails
    /// with this kind (Interrupted: a caller that retries must go on where the prefix ended)
    ShortThenError(usize, io::ErrorKind),
}

pub struct SimFileInner {
    pub data: Vec<u8>,
    pub pos: u64,
    pub ops: Vec<FileOp>,
    pub read_frag: Frag,
    pub write_frag: Frag,
    pub pending16: u32,
    pub seek_pending: Option<u64>,
    pub write_calls: u64,
    pub write_fault: Option<(u64, WriteFault)>,
    pub crashed: bool,
    /// a fixed-size device: writes past the end fail
    pub fixed_size: bool,
    /// early EOF: reads see only this many bytes
    pub eof_at: Option<u64>,
    /// the k-th read call (counted over the file's life) fails with this kind, once; a read
    /// just before it is cut short so that the failing one comes in the middle of something
    pub read_fault: Option<(u64, io::ErrorKind)>,
    pub read_calls: u64,
    /// the k-th seek (counted over the file's life) fails with this kind, once: at `start_seek`
    /// (false) or when it completes (true); the position stays where it was
    pub seek_fault: Option<(u64, io::ErrorKind, bool)>,
    pub seek_calls: u64,
    /// set by ShortThenError: the next write call fails with this
    pub fail_next_write: Option<io::ErrorKind>,
    /// called before every write lands: the invariant monitor of C03
    pub on_write: Option<Box<dyn FnMut(&[u8], u64, &[u8]) + Send>>,
}

#[derive(Clone)]
pub struct SimFile(pub Arc<Mutex<SimFileInner>>);

impl SimFile {
    pub fn new(data: Vec<u8>) -> Self {
        SimFile(Arc::new(Mutex::new(SimFileInner {
            data,
            pos: 0,
            ops: Vec::new(),
            read_frag: Frag::Whole,
            write_frag: Frag::Whole,
            pending16: 0,
            seek_pending: None,
            write_calls: 0,
            write_fault: None,
            crashed: false,
            fixed_size: false,
            eof_at: None,
            read_fault: None,
            read_calls: 0,
            seek_fault: None,
            seek_calls: 0,
            fail_next_write: None,
            on_write: None,
        })))
    }
    pub fn drawn(data: Vec<u8>) -> Self {
        let f = Self::new(data);
        {
            let mut g = f.0.lock().unwrap();
            g.read_frag = draw_frag();
            g.write_frag = simkit::with(|s| match s.tape.weighted(&[6, 1, 1]) {
                0 => Frag::Whole,
                1 => Frag::Fixed(1 + s.tape.draw(8) as usize),
                _ => Frag::Random(1 + s.tape.draw(4096) as usize),
            });
            g.pending16 = draw_pending16();
        }
        f
    }
    pub fn contents(&self) -> Vec<u8> {
        self.0.lock().unwrap().data.clone()
    }
    pub fn ops(&self) -> Vec<FileOp> {
        self.0.lock().unwrap().ops.clone()
    }
    pub fn with<R>(&self, f: impl FnOnce(&mut SimFileInner) -> R) -> R {
        f(&mut self.0.lock().unwrap())
    }
}

fn maybe_pending(pending16: u32, cx: &mut Context<'_>) -> bool {
    if pending16 > 0 && simkit::chance(pending16, 16) {
        simkit::count("file-pending");
        cx.waker().wake_by_ref();
        true
    } else {
        false
    }
}

impl AsyncRead for SimFile {
    fn poll_read(self: Pin<&mut Self>, cx: &mut Context<'_>, buf: &mut ReadBuf<'_>) -> Poll<io::Result<()>> {
        simkit::exec::yield_point();
        let mut g = self.0.lock().unwrap();
        if g.crashed {
            return Poll::Ready(Err(io::ErrorKind::BrokenPipe.into()));
        }
        if maybe_pending(g.pending16, cx) {
            return Poll::Pending;
        }
        let call = g.read_calls;
        g.read_calls += 1;
        let mut cut_short = false;
        if let Some((k, kind)) = g.read_fault {
            if call == k {
                g.read_fault = None;
                simkit::count("fault:file-read-error");
                return Poll::Ready(Err(kind.into()));
            }
            cut_short = call + 1 == k;
        }
        let len = g.eof_at.map(|e| (e as usize).min(g.data.len())).unwrap_or(g.data.len());
        let pos = g.pos as usize;
        let avail = len.saturating_sub(pos);
        let mut n = frag_len(g.read_frag, avail, buf.remaining(), g.data.len());
        if cut_short && n > 1 {
            n = (n / 2).max(1);
        }
        if n > 0 {
            buf.put_slice(&g.data[pos..pos + n]);
        }
        g.pos += n as u64;
        g.ops.push(FileOp::Read { pos: pos as u64, len: n });
        simkit::with(|s| s.event("file-read", pos as u64, n as u64));
        Poll::Ready(Ok(()))
    }
}

impl AsyncSeek for SimFile {
    fn start_seek(self: Pin<&mut Self>, position: SeekFrom) -> io::Result<()> {
        let mut g = self.0.lock().unwrap();
        if g.seek_pending.is_some() {
            return Err(io::Error::new(io::ErrorKind::Other, "other file operation is pending, call poll_complete before start_seek"));
        }
        let to: i128 = match position {
            SeekFrom::Start(p) => p as i128,
            SeekFrom::End(d) => g.data.len() as i128 + d as i128,
            SeekFrom::Current(d) => g.pos as i128 + d as i128,
        };
        if to < 0 {
            return Err(io::Error::new(io::ErrorKind::InvalidInput, "invalid seek to a negative position"));
        }
        let call = g.seek_calls;
        g.seek_calls += 1;
        if let Some((k, kind, at_complete)) = g.seek_fault {
            if k == call && !at_complete {
                g.seek_fault = None;
                simkit::count("fault:file-seek-error");
                return Err(kind.into());
            }
        }
        g.seek_pending = Some(to as u64);
        Ok(())
    }
    fn poll_complete(self: Pin<&mut Self>, cx: &mut Context<'_>) -> Poll<io::Result<u64>> {
        simkit::exec::yield_point();
        let mut g = self.0.lock().unwrap();
        if let Some(to) = g.seek_pending {
            if maybe_pending(g.pending16, cx) {
                return Poll::Pending;
            }
            g.seek_pending = None;
            if let Some((k, kind, true)) = g.seek_fault {
                if k + 1 == g.seek_calls {
                    g.seek_fault = None;
                    simkit::count("fault:file-seek-error");
                    return Poll::Ready(Err(kind.into()));
                }
            }
            g.pos = to;
            g.ops.push(FileOp::Seek { to });
            simkit::with(|s| s.event("file-seek", to, 0));
        }
        Poll::Ready(Ok(g.pos))
    }
}

impl AsyncWrite for SimFile {
    fn poll_write(self: Pin<&mut Self>, cx: &mut Context<'_>, src: &[u8]) -> Poll<io::Result<usize>> {
        simkit::exec::yield_point();
        let mut g = self.0.lock().unwrap();
        if g.crashed {
            return Poll::Ready(Err(io::ErrorKind::BrokenPipe.into()));
        }
        if maybe_pending(g.pending16, cx) {
            return Poll::Pending;
        }
        let call = g.write_calls;
        g.write_calls += 1;
        if let Some(kind) = g.fail_next_write.take() {
            simkit::count("fault:file-write-error");
            return Poll::Ready(Err(kind.into()));
        }
        let mut n = frag_len(g.write_frag, src.len(), usize::MAX, src.len());
        let mut crash = false;
        if let Some((k, fault)) = g.write_fault.clone() {
            if k == call {
                g.write_fault = None;
                match fault {
                    WriteFault::Error(kind) => {
                        simkit::count("fault:file-write-error");
                        return Poll::Ready(Err(kind.into()));
                    }
                    WriteFault::Crash(prefix) => {
                        simkit::count("fault:file-crash");
                        n = src.len().min(prefix);
                        crash = true;
                    }
                    WriteFault::ShortThenError(prefix, kind) => {
                        if src.len() > 1 {
                            n = prefix.clamp(1, src.len() - 1);
                            g.fail_next_write = Some(kind);
                        } else {
                            simkit::count("fault:file-write-error");
                            return Poll::Ready(Err(kind.into()));
                        }
                    }
                }
            }
        }
        let pos = g.pos as usize;
        if g.fixed_size {
            let room = g.data.len().saturating_sub(pos);
            if room == 0 && !src.is_empty() && !crash {
                return Poll::Ready(Err(io::Error::from_raw_os_error(28)));
            }
            n = n.min(room);
        }
        if n > 0 || crash {
            if let Some(mut cb) = g.on_write.take() {
                cb(&g.data, pos as u64, &src[..n]);
                g.on_write = Some(cb);
            }
            if g.data.len() < pos + n {
                g.data.resize(pos + n, 0);
            }
            g.data[pos..pos + n].copy_from_slice(&src[..n]);
            g.pos += n as u64;
            g.ops.push(FileOp::Write { pos: pos as u64, data: src[..n].to_vec() });
            simkit::with(|s| s.event("file-write", pos as u64, n as u64));
        }
        if crash {
            g.crashed = true;
            simkit::with(|s| {
                s.crashed = true;
                s.event("crash", 0, 0);
            });
            return Poll::Ready(Err(io::ErrorKind::BrokenPipe.into()));
        }
        Poll::Ready(Ok(n))
    }
    fn poll_flush(self: Pin<&mut Self>, _cx: &mut Context<'_>) -> Poll<io::Result<()>> {
        let mut g = self.0.lock().unwrap();
        g.ops.push(FileOp::Flush);
        Poll::Ready(Ok(()))
    }
    fn poll_shutdown(self: Pin<&mut Self>, cx: &mut Context<'_>) -> Poll<io::Result<()>> {
        self.poll_flush(cx)
    }
}

/// A write-only sink collecting bytes (library writer output).
#[derive(Clone, Default)]
pub struct SimSink(pub Arc<Mutex<Vec<u8>>>, pub Frag2);

#[derive(Clone, Copy, Default)]
pub struct Frag2 {
    pub max: usize,
    pub pending16: u32,
}

impl SimSink {
    pub fn drawn() -> Self {
        let (max, p) = simkit::with(|s| {
            let max = match s.tape.weighted(&[4, 1, 1]) {
                0 => 0usize,
                1 => 1 + s.tape.draw(16) as usize,
                _ => 1 + s.tape.draw(65536) as usize,
            };
            (max, *s.tape.pick(&[0u32, 0, 2, 8]))
        });
        SimSink(Arc::new(Mutex::new(Vec::new())), Frag2 { max, pending16: p })
    }
    pub fn bytes(&self) -> Vec<u8> {
        self.0.lock().unwrap().clone()
    }
}

impl AsyncWrite for SimSink {
    fn poll_write(self: Pin<&mut Self>, cx: &mut Context<'_>, src: &[u8]) -> Poll<io::Result<usize>> {
        simkit::exec::yield_point();
        if maybe_pending(self.1.pending16, cx) {
            return Poll::Pending;
        }
        // tiny write fragments are for small outputs: after ~256 KiB the sink takes whatever it is
        // given (or a multi-megabyte archive costs the step budget in the harness's own fragmentation)
        let written = self.0.lock().unwrap().len();
        let n = if self.1.max == 0 || written > 256 * 1024 { src.len() } else { src.len().min(self.1.max) };
        self.0.lock().unwrap().extend_from_slice(&src[..n]);
        Poll::Ready(Ok(n))
    }
    fn poll_flush(self: Pin<&mut Self>, _cx: &mut Context<'_>) -> Poll<io::Result<()>> {
        Poll::Ready(Ok(()))
    }
    fn poll_shutdown(self: Pin<&mut Self>, _cx: &mut Context<'_>) -> Poll<io::Result<()>> {
        Poll::Ready(Ok(()))
    }
}
