fn main() {
    // make the interposed libc symbols visible to dlsym(RTLD_DEFAULT, ..) lookups too
    println!("cargo:rustc-link-arg-bins=-Wl,--export-dynamic");
    println!("cargo:rerun-if-changed=build.rs");
}
