//! Facade crate named `reqwest`: `Client::new().get(url)`, `RequestBuilder::{header, headers,
//! timeout, try_clone, send}`, `Response::{status, bytes, bytes_stream}`, `Error`, `Url`,
//! `header::*`. A request is answered by `simkit::net::dispatch`; the body is delivered as
//! the planned fragments over virtual time.

use std::fmt;
use std::future::Future;
use std::pin::Pin;
use std::task::{Context, Poll};
use std::time::Duration;

use bytes::{Bytes, BytesMut};
use simkit::net::{BodyEnd, ReqInfo, ResponsePlan};

pub use url::Url;
pub mod header {
    pub use http::header::*;
}
pub use http::StatusCode;

#[derive(Clone, Debug, Default)]
pub struct Client {
    _p: (),
}

impl Client {
    pub fn new() -> Self {
        Client { _p: () }
    }
    pub fn get<U: IntoUrl>(&self, url: U) -> RequestBuilder {
        RequestBuilder { url: url.into_url_string(), headers: header::HeaderMap::new(), timeout: None }
    }
    pub fn execute(&self, request: Request) -> Pending {
        RequestBuilder { url: request.url.to_string(), headers: request.headers, timeout: request.timeout }.send()
    }
    pub fn builder() -> ClientBuilder {
        ClientBuilder { _p: () }
    }
}

/// `Client::builder()`: the options are accepted and have no effect in the simulated network
#[derive(Debug, Default)]
pub struct ClientBuilder {
    _p: (),
}

impl ClientBuilder {
    pub fn new() -> Self {
        ClientBuilder { _p: () }
    }
    pub fn build(self) -> std::result::Result<Client, Error> {
        Ok(Client::new())
    }
    pub fn user_agent<V>(self, _v: V) -> Self {
        self
    }
    pub fn connect_timeout(self, _d: Duration) -> Self {
        self
    }
    pub fn pool_max_idle_per_host(self, _n: usize) -> Self {
        self
    }
    pub fn tcp_nodelay(self, _b: bool) -> Self {
        self
    }
}

pub trait IntoUrl {
    fn into_url_string(self) -> String;
}
impl IntoUrl for Url {
    fn into_url_string(self) -> String {
        self.to_string()
    }
}
impl IntoUrl for &str {
    fn into_url_string(self) -> String {
        self.to_string()
    }
}
impl IntoUrl for String {
    fn into_url_string(self) -> String {
        self
    }
}

#[derive(Debug)]
pub struct RequestBuilder {
    url: String,
    headers: header::HeaderMap,
    timeout: Option<Duration>,
}

impl RequestBuilder {
    pub fn header<K, V>(mut self, key: K, value: V) -> RequestBuilder
    where
        header::HeaderName: TryFrom<K>,
        header::HeaderValue: TryFrom<V>,
    {
        if let (Ok(k), Ok(v)) = (header::HeaderName::try_from(key), header::HeaderValue::try_from(value)) {
            // reqwest appends
            self.headers.append(k, v);
        }
        self
    }
    pub fn headers(mut self, headers: header::HeaderMap) -> RequestBuilder {
        // reqwest::util::replace_headers semantics: replace existing names
        for (k, v) in headers.iter() {
            self.headers.insert(k.clone(), v.clone());
        }
        self
    }
    pub fn timeout(mut self, timeout: Duration) -> RequestBuilder {
        self.timeout = Some(timeout);
        self
    }
    pub fn try_clone(&self) -> Option<RequestBuilder> {
        Some(RequestBuilder { url: self.url.clone(), headers: self.headers.clone(), timeout: self.timeout })
    }
    pub fn send(self) -> Pending {
        Pending { url: self.url.clone(), range: None, req: Some(self), wait: None, timer: simkit::exec::TimerSlot::new() }
    }
    pub fn build(self) -> std::result::Result<Request, Error> {
        let url = Url::parse(&self.url).map_err(|e| Error::new(Kind::Builder, &e.to_string()))?;
        Ok(Request { method: http::Method::GET, url, headers: self.headers, timeout: self.timeout })
    }
}

/// a built request (`RequestBuilder::build`), sent with `Client::execute`
#[derive(Debug)]
pub struct Request {
    method: http::Method,
    url: Url,
    headers: header::HeaderMap,
    timeout: Option<Duration>,
}

impl Request {
    pub fn method(&self) -> &http::Method {
        &self.method
    }
    pub fn url(&self) -> &Url {
        &self.url
    }
    pub fn url_mut(&mut self) -> &mut Url {
        &mut self.url
    }
    pub fn headers(&self) -> &header::HeaderMap {
        &self.headers
    }
    pub fn headers_mut(&mut self) -> &mut header::HeaderMap {
        &mut self.headers
    }
    pub fn timeout(&self) -> Option<&Duration> {
        self.timeout.as_ref()
    }
    pub fn timeout_mut(&mut self) -> &mut Option<Duration> {
        &mut self.timeout
    }
    pub fn try_clone(&self) -> Option<Request> {
        Some(Request { method: self.method.clone(), url: self.url.clone(), headers: self.headers.clone(), timeout: self.timeout })
    }
}

/// future returned by `send()`
pub struct Pending {
    url: String,
    range: Option<String>,
    req: Option<RequestBuilder>,
    wait: Option<(u64, ResponsePlan, Option<u64>)>,
    timer: simkit::exec::TimerSlot,
}

impl Future for Pending {
    type Output = std::result::Result<Response, Error>;
    fn poll(mut self: Pin<&mut Self>, cx: &mut Context<'_>) -> Poll<Self::Output> {
        simkit::exec::yield_point();
        if let Some(req) = self.req.take() {
            let info = ReqInfo {
                url: req.url.clone(),
                headers: req
                    .headers
                    .iter()
                    .map(|(k, v)| (k.as_str().to_string(), String::from_utf8_lossy(v.as_bytes()).to_string()))
                    .collect(),
                range: req
                    .headers
                    .get_all(header::RANGE)
                    .iter()
                    .map(|v| String::from_utf8_lossy(v.as_bytes()).to_string())
                    .reduce(|a, b| format!("{},{}", a, b)),
                timeout_ns: req.timeout.map(|d| d.as_nanos().min(u64::MAX as u128) as u64),
                time_ns: 0,
            };
            let timeout = info.timeout_ns;
            self.range = info.range.clone();
            let plan = simkit::net::dispatch(info);
            let now = simkit::now_ns();
            let deadline = timeout.map(|t| now.saturating_add(t));
            let ready_at = now.saturating_add(plan.connect_delay_ns);
            self.wait = Some((ready_at, plan, deadline));
        }
        let now = simkit::now_ns();
        let (ready_at, _, deadline) = self.wait.as_ref().unwrap();
        let (ready_at, deadline) = (*ready_at, *deadline);
        if let Some(d) = deadline {
            if ready_at > d {
                if now >= d {
                    simkit::count("http-timeout");
                    return Poll::Ready(Err(Error::new(Kind::Timeout, "operation timed out")));
                }
                self.timer.arm(d, cx);
                return Poll::Pending;
            }
        }
        if now < ready_at {
            self.timer.arm(ready_at, cx);
            return Poll::Pending;
        }
        let (_, plan, deadline) = self.wait.take().unwrap();
        match plan.connect {
            Err(msg) => {
                simkit::count("http-connect-error");
                Poll::Ready(Err(Error::new(Kind::Connect, &msg)))
            }
            Ok(()) => Poll::Ready(Ok(Response {
                status: plan.status,
                content_length: plan.content_length,
                headers: {
                    let mut h = header::HeaderMap::new();
                    if let Some(n) = plan.content_length {
                        h.insert(header::CONTENT_LENGTH, header::HeaderValue::from(n));
                    }
                    if plan.status == 206 {
                        if let Some(r) = self.range.as_deref().and_then(|r| r.strip_prefix("bytes=")) {
                            if let Ok(v) = header::HeaderValue::from_str(&format!("bytes {}/*", r)) {
                                h.insert(header::CONTENT_RANGE, v);
                            }
                        }
                    }
                    h
                },
                url: Url::parse(&self.url).unwrap_or_else(|_| Url::parse("http://invalid.invalid/").unwrap()),
                body: Body {
                    fragments: plan.fragments.into_iter().collect(),
                    end: plan.end,
                    end_delay_ns: plan.end_delay_ns,
                    tail: plan.tail,
                    next_at: None,
                    deadline,
                    done: false,
                    timer: simkit::exec::TimerSlot::new(),
                },
            })),
        }
    }
}

pub struct Response {
    status: u16,
    content_length: Option<u64>,
    headers: header::HeaderMap,
    url: Url,
    body: Body,
}

impl fmt::Debug for Response {
    fn fmt(&self, f: &mut fmt::Formatter<'_>) -> fmt::Result {
        write!(f, "Response({})", self.status)
    }
}

impl Response {
    /// the announced Content-Length, if any
    pub fn content_length(&self) -> Option<u64> {
        self.content_length
    }
    pub fn status(&self) -> StatusCode {
        StatusCode::from_u16(self.status).unwrap_or(StatusCode::OK)
    }
    /// Content-Length (if announced) and, for a 206, the Content-Range the request asked for
    pub fn headers(&self) -> &header::HeaderMap {
        &self.headers
    }
    pub fn url(&self) -> &Url {
        &self.url
    }
    pub fn error_for_status(self) -> std::result::Result<Self, Error> {
        if (400..600).contains(&self.status) {
            Err(Error::new(Kind::Status(self.status), ""))
        } else {
            Ok(self)
        }
    }
    pub async fn chunk(&mut self) -> std::result::Result<Option<Bytes>, Error> {
        let body = &mut self.body;
        match std::future::poll_fn(|cx| Pin::new(&mut *body).poll_frag(cx)).await {
            Some(Ok(b)) => Ok(Some(b)),
            Some(Err(e)) => Err(e),
            None => Ok(None),
        }
    }
    pub async fn bytes(self) -> std::result::Result<Bytes, Error> {
        let mut body = self.body;
        let mut all = BytesMut::new();
        loop {
            match std::future::poll_fn(|cx| Pin::new(&mut body).poll_frag(cx)).await {
                Some(Ok(b)) => all.extend_from_slice(&b),
                Some(Err(e)) => return Err(e),
                None => return Ok(all.freeze()),
            }
        }
    }
    pub fn bytes_stream(self) -> Body {
        self.body
    }
}

/// the response body as a stream of fragments
pub struct Body {
    fragments: std::collections::VecDeque<(u64, Vec<u8>)>,
    end: BodyEnd,
    end_delay_ns: u64,
    tail: Option<(usize, u64)>,
    next_at: Option<u64>,
    deadline: Option<u64>,
    done: bool,
    timer: simkit::exec::TimerSlot,
}

impl Body {
    fn poll_frag(mut self: Pin<&mut Self>, cx: &mut Context<'_>) -> Poll<Option<std::result::Result<Bytes, Error>>> {
        simkit::exec::yield_point();
        if self.done {
            return Poll::Ready(None);
        }
        if self.fragments.is_empty() {
            if let Some((size, count)) = self.tail {
                if count > 0 {
                    self.tail = Some((size, count - 1));
                    self.fragments.push_back((0, vec![0xEE; size]));
                }
            }
        }
        let now = simkit::now_ns();
        let delay = match self.fragments.front() {
            Some((d, _)) => *d,
            None => match self.end {
                BodyEnd::Stall => u64::MAX / 4,
                _ => self.end_delay_ns,
            },
        };
        let at = *self.next_at.get_or_insert(now.saturating_add(delay));
        if let Some(d) = self.deadline {
            if at > d {
                if now >= d {
                    self.done = true;
                    simkit::count("http-timeout");
                    return Poll::Ready(Some(Err(Error::new(Kind::BodyTimeout, "operation timed out"))));
                }
                self.timer.arm(d, cx);
                return Poll::Pending;
            }
        }
        if now < at {
            if matches!(self.end, BodyEnd::Stall) && self.fragments.is_empty() && self.deadline.is_none() {
                // a stalled body without a timeout never completes: let the executor see a
                // far-future timer so that the run ends by step budget / deadlock, not here
                self.timer.arm(at, cx);
                return Poll::Pending;
            }
            self.timer.arm(at, cx);
            return Poll::Pending;
        }
        self.next_at = None;
        match self.fragments.pop_front() {
            Some((_, data)) => {
                simkit::with(|s| s.event("http-frag", data.len() as u64, 0));
                Poll::Ready(Some(Ok(Bytes::from(data))))
            }
            None => {
                self.done = true;
                match std::mem::replace(&mut self.end, BodyEnd::Eof) {
                    BodyEnd::Eof => Poll::Ready(None),
                    BodyEnd::Error(msg) => {
                        simkit::count("http-body-error");
                        Poll::Ready(Some(Err(Error::new(Kind::Body, &msg))))
                    }
                    BodyEnd::Stall => Poll::Ready(None),
                }
            }
        }
    }
}

impl futures_core::Stream for Body {
    type Item = std::result::Result<Bytes, Error>;
    fn poll_next(self: Pin<&mut Self>, cx: &mut Context<'_>) -> Poll<Option<Self::Item>> {
        self.poll_frag(cx)
    }
}

#[derive(Clone, Copy, Debug, PartialEq, Eq)]
enum Kind {
    /// the connection could not be made / was lost before a response head arrived
    Connect,
    /// the transport failed while the body was read
    Body,
    /// the request's total timeout expired before the response head arrived
    Timeout,
    /// ... while the body was read
    BodyTimeout,
    Status(u16),
    Builder,
}

/// Mirrors how reqwest 0.12 classifies errors (src/error.rs, async_impl/decoder.rs, client.rs):
/// a failure before the response head is `Kind::Request` (`is_request()`, plus `is_connect()`
/// or `is_timeout()` from its source chain); every error met while the body is read is wrapped
/// by the decoder as `Kind::Decode` (`is_decode()`; NOT `is_body()`), a body timeout keeping
/// `is_timeout()` through its source chain.
pub struct Error {
    kind: Kind,
    msg: String,
    url: Option<Url>,
}

impl Error {
    fn new(kind: Kind, msg: &str) -> Self {
        Error { kind, msg: msg.to_string(), url: None }
    }
    pub fn is_timeout(&self) -> bool {
        matches!(self.kind, Kind::Timeout | Kind::BodyTimeout)
    }
    pub fn is_connect(&self) -> bool {
        self.kind == Kind::Connect
    }
    pub fn is_request(&self) -> bool {
        matches!(self.kind, Kind::Connect | Kind::Timeout)
    }
    pub fn is_body(&self) -> bool {
        false
    }
    pub fn is_decode(&self) -> bool {
        matches!(self.kind, Kind::Body | Kind::BodyTimeout)
    }
    pub fn is_status(&self) -> bool {
        matches!(self.kind, Kind::Status(_))
    }
    pub fn is_builder(&self) -> bool {
        self.kind == Kind::Builder
    }
    pub fn is_redirect(&self) -> bool {
        false
    }
    pub fn status(&self) -> Option<StatusCode> {
        match self.kind {
            Kind::Status(c) => StatusCode::from_u16(c).ok(),
            _ => None,
        }
    }
    pub fn url(&self) -> Option<&Url> {
        self.url.as_ref()
    }
    pub fn without_url(mut self) -> Self {
        self.url = None;
        self
    }
    pub fn with_url(mut self, url: Url) -> Self {
        self.url = Some(url);
        self
    }
}

impl fmt::Debug for Error {
    fn fmt(&self, f: &mut fmt::Formatter<'_>) -> fmt::Result {
        write!(f, "reqwest::Error {{ kind: {:?}, source: {:?} }}", self.kind, self.msg)
    }
}
impl fmt::Display for Error {
    fn fmt(&self, f: &mut fmt::Formatter<'_>) -> fmt::Result {
        match self.kind {
            Kind::Connect => write!(f, "error sending request: {}", self.msg),
            Kind::Body => write!(f, "error decoding response body: {}", self.msg),
            Kind::Timeout | Kind::BodyTimeout => write!(f, "operation timed out"),
            Kind::Status(c) => write!(f, "HTTP status error ({})", c),
            Kind::Builder => write!(f, "builder error: {}", self.msg),
        }
    }
}
impl std::error::Error for Error {}

pub type Result<T> = std::result::Result<T, Error>;
