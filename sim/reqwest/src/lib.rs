//! Facade crate named `reqwest`: `Client::new().get(url)`, `RequestBuilder::{header, headers,
//! timeout, try_clone, send}`, `Response::{status, bytes, bytes_stream}`, `Error`, `Url`,
//! `header::*`. A request is answered by `simkit::net::dispatch`; the body is delivered as
//! the planned fragments over virtual time.

use std::fmt;
use std::future::Future;
use std::pin::Pin;
use std::task::{Context, Poll};
use std::time::Duration;

use bytes::{Bytes, BytesMut};
use simkit::net::{BodyEnd, ReqInfo, ResponsePlan};

pub use url::Url;
pub mod header {
    pub use http::header::*;
}
pub use http::StatusCode;

#[derive(Clone, Debug, Default)]
pub struct Client {
    _p: (),
}

impl Client {
    pub fn new() -> Self {
        Client { _p: () }
    }
    pub fn get<U: IntoUrl>(&self, url: U) -> RequestBuilder {
        RequestBuilder { url: url.into_url_string(), headers: header::HeaderMap::new(), timeout: None }
    }
}

pub trait IntoUrl {
    fn into_url_string(self) -> String;
}
impl IntoUrl for Url {
    fn into_url_string(self) -> String {
        self.to_string()
    }
}
impl IntoUrl for &str {
    fn into_url_string(self) -> String {
        self.to_string()
    }
}
impl IntoUrl for String {
    fn into_url_string(self) -> String {
        self
    }
}

#[derive(Debug)]
pub struct RequestBuilder {
    url: String,
    headers: header::HeaderMap,
    timeout: Option<Duration>,
}

impl RequestBuilder {
    pub fn header<K, V>(mut self, key: K, value: V) -> RequestBuilder
    where
        header::HeaderName: TryFrom<K>,
        header::HeaderValue: TryFrom<V>,
    {
        if let (Ok(k), Ok(v)) = (header::HeaderName::try_from(key), header::HeaderValue::try_from(value)) {
            // reqwest appends
            self.headers.append(k, v);
        }
        self
    }
    pub fn headers(mut self, headers: header::HeaderMap) -> RequestBuilder {
        // reqwest::util::replace_headers semantics: replace existing names
        for (k, v) in headers.iter() {
            self.headers.insert(k.clone(), v.clone());
        }
        self
    }
    pub fn timeout(mut self, timeout: Duration) -> RequestBuilder {
        self.timeout = Some(timeout);
        self
    }
    pub fn try_clone(&self) -> Option<RequestBuilder> {
        Some(RequestBuilder { url: self.url.clone(), headers: self.headers.clone(), timeout: self.timeout })
    }
    pub fn send(self) -> Pending {
        Pending { req: Some(self), wait: None, timer: simkit::exec::TimerSlot::new() }
    }
}

/// future returned by `send()`
pub struct Pending {
    req: Option<RequestBuilder>,
    wait: Option<(u64, ResponsePlan, Option<u64>)>,
    timer: simkit::exec::TimerSlot,
}

impl Future for Pending {
    type Output = Result<Response, Error>;
    fn poll(mut self: Pin<&mut Self>, cx: &mut Context<'_>) -> Poll<Self::Output> {
        simkit::exec::yield_point();
        if let Some(req) = self.req.take() {
            let info = ReqInfo {
                url: req.url.clone(),
                headers: req
                    .headers
                    .iter()
                    .map(|(k, v)| (k.as_str().to_string(), String::from_utf8_lossy(v.as_bytes()).to_string()))
                    .collect(),
                range: req
                    .headers
                    .get_all(header::RANGE)
                    .iter()
                    .map(|v| String::from_utf8_lossy(v.as_bytes()).to_string())
                    .reduce(|a, b| format!("{},{}", a, b)),
                timeout_ns: req.timeout.map(|d| d.as_nanos().min(u64::MAX as u128) as u64),
                time_ns: 0,
            };
            let timeout = info.timeout_ns;
            let plan = simkit::net::dispatch(info);
            let now = simkit::now_ns();
            let deadline = timeout.map(|t| now.saturating_add(t));
            let ready_at = now.saturating_add(plan.connect_delay_ns);
            self.wait = Some((ready_at, plan, deadline));
        }
        let now = simkit::now_ns();
        let (ready_at, _, deadline) = self.wait.as_ref().unwrap();
        let (ready_at, deadline) = (*ready_at, *deadline);
        if let Some(d) = deadline {
            if ready_at > d {
                if now >= d {
                    simkit::count("http-timeout");
                    return Poll::Ready(Err(Error::new(Kind::Timeout, "operation timed out")));
                }
                self.timer.arm(d, cx);
                return Poll::Pending;
            }
        }
        if now < ready_at {
            self.timer.arm(ready_at, cx);
            return Poll::Pending;
        }
        let (_, plan, deadline) = self.wait.take().unwrap();
        match plan.connect {
            Err(msg) => {
                simkit::count("http-connect-error");
                Poll::Ready(Err(Error::new(Kind::Connect, &msg)))
            }
            Ok(()) => Poll::Ready(Ok(Response {
                status: plan.status,
                content_length: plan.content_length,
                body: Body {
                    fragments: plan.fragments.into_iter().collect(),
                    end: plan.end,
                    end_delay_ns: plan.end_delay_ns,
                    tail: plan.tail,
                    next_at: None,
                    deadline,
                    done: false,
                    timer: simkit::exec::TimerSlot::new(),
                },
            })),
        }
    }
}

pub struct Response {
    status: u16,
    content_length: Option<u64>,
    body: Body,
}

impl fmt::Debug for Response {
    fn fmt(&self, f: &mut fmt::Formatter<'_>) -> fmt::Result {
        write!(f, "Response({})", self.status)
    }
}

impl Response {
    /// the announced Content-Length, if any
    pub fn content_length(&self) -> Option<u64> {
        self.content_length
    }
    pub fn status(&self) -> StatusCode {
        StatusCode::from_u16(self.status).unwrap_or(StatusCode::OK)
    }
    pub async fn bytes(self) -> Result<Bytes, Error> {
        let mut body = self.body;
        let mut all = BytesMut::new();
        loop {
            match std::future::poll_fn(|cx| Pin::new(&mut body).poll_frag(cx)).await {
                Some(Ok(b)) => all.extend_from_slice(&b),
                Some(Err(e)) => return Err(e),
                None => return Ok(all.freeze()),
            }
        }
    }
    pub fn bytes_stream(self) -> Body {
        self.body
    }
}

/// the response body as a stream of fragments
pub struct Body {
    fragments: std::collections::VecDeque<(u64, Vec<u8>)>,
    end: BodyEnd,
    end_delay_ns: u64,
    tail: Option<(usize, u64)>,
    next_at: Option<u64>,
    deadline: Option<u64>,
    done: bool,
    timer: simkit::exec::TimerSlot,
}

impl Body {
    fn poll_frag(mut self: Pin<&mut Self>, cx: &mut Context<'_>) -> Poll<Option<Result<Bytes, Error>>> {
        simkit::exec::yield_point();
        if self.done {
            return Poll::Ready(None);
        }
        if self.fragments.is_empty() {
            if let Some((size, count)) = self.tail {
                if count > 0 {
                    self.tail = Some((size, count - 1));
                    self.fragments.push_back((0, vec![0xEE; size]));
                }
            }
        }
        let now = simkit::now_ns();
        let delay = match self.fragments.front() {
            Some((d, _)) => *d,
            None => match self.end {
                BodyEnd::Stall => u64::MAX / 4,
                _ => self.end_delay_ns,
            },
        };
        let at = *self.next_at.get_or_insert(now.saturating_add(delay));
        if let Some(d) = self.deadline {
            if at > d {
                if now >= d {
                    self.done = true;
                    simkit::count("http-timeout");
                    return Poll::Ready(Some(Err(Error::new(Kind::Timeout, "operation timed out"))));
                }
                self.timer.arm(d, cx);
                return Poll::Pending;
            }
        }
        if now < at {
            if matches!(self.end, BodyEnd::Stall) && self.fragments.is_empty() && self.deadline.is_none() {
                // a stalled body without a timeout never completes: let the executor see a
                // far-future timer so that the run ends by step budget / deadlock, not here
                self.timer.arm(at, cx);
                return Poll::Pending;
            }
            self.timer.arm(at, cx);
            return Poll::Pending;
        }
        self.next_at = None;
        match self.fragments.pop_front() {
            Some((_, data)) => {
                simkit::with(|s| s.event("http-frag", data.len() as u64, 0));
                Poll::Ready(Some(Ok(Bytes::from(data))))
            }
            None => {
                self.done = true;
                match std::mem::replace(&mut self.end, BodyEnd::Eof) {
                    BodyEnd::Eof => Poll::Ready(None),
                    BodyEnd::Error(msg) => {
                        simkit::count("http-body-error");
                        Poll::Ready(Some(Err(Error::new(Kind::Body, &msg))))
                    }
                    BodyEnd::Stall => Poll::Ready(None),
                }
            }
        }
    }
}

impl futures_core::Stream for Body {
    type Item = Result<Bytes, Error>;
    fn poll_next(self: Pin<&mut Self>, cx: &mut Context<'_>) -> Poll<Option<Self::Item>> {
        self.poll_frag(cx)
    }
}

#[derive(Clone, Copy, Debug, PartialEq, Eq)]
enum Kind {
    Connect,
    Body,
    Timeout,
}

pub struct Error {
    kind: Kind,
    msg: String,
}

impl Error {
    fn new(kind: Kind, msg: &str) -> Self {
        Error { kind, msg: msg.to_string() }
    }
    pub fn is_timeout(&self) -> bool {
        self.kind == Kind::Timeout
    }
    pub fn is_connect(&self) -> bool {
        self.kind == Kind::Connect
    }
    pub fn is_body(&self) -> bool {
        self.kind == Kind::Body
    }
}

impl fmt::Debug for Error {
    fn fmt(&self, f: &mut fmt::Formatter<'_>) -> fmt::Result {
        write!(f, "reqwest::Error {{ kind: {:?}, source: {:?} }}", self.kind, self.msg)
    }
}
impl fmt::Display for Error {
    fn fmt(&self, f: &mut fmt::Formatter<'_>) -> fmt::Result {
        match self.kind {
            Kind::Connect => write!(f, "error sending request: {}", self.msg),
            Kind::Body => write!(f, "error decoding response body: {}", self.msg),
            Kind::Timeout => write!(f, "operation timed out"),
        }
    }
}
impl std::error::Error for Error {}
