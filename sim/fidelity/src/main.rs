//! Differential self-test of the `tokio::fs::File` port (sim/tokio/src/fs.rs) against the real
//! tokio 1.42.0 `File` on a real runtime with a real blocking pool.
//!
//! Random operation sequences (write_all, seek, read, flush, set_len, sync_all, drop + reopen)
//! are executed on a real file by both; a file-size limit (RLIMIT_FSIZE with SIGXFSZ ignored)
//! makes writes beyond a drawn size fail with EFBIG for both, so that the deferred-error
//! hand-over (`last_write_err`) is exercised. Per-operation results and the final file content
//! must agree; the port is run under three schedules (eager FIFO, fully lazy, 50 % drawn
//! order), which must not change any result either.
//!
//! usage: fidelity <sequences> [seed]      prints one JSON line, exit 0 iff no mismatch

use std::io::SeekFrom;

use simkit::prng::Rng;

#[derive(Clone, Debug)]
enum Op {
    Write(Vec<u8>),
    Seek(SeekFrom),
    Read(usize),
    Flush,
    SetLen(u64),
    SyncAll,
    Reopen,
}

fn gen_ops(rng: &mut Rng) -> Vec<Op> {
    let n = 1 + rng.below(14) as usize;
    (0..n)
        .map(|_| match rng.below(12) {
            0..=3 => {
                let len = match rng.below(4) {
                    0 => rng.below(16) as usize,
                    1 => rng.below(5000) as usize,
                    2 => 60_000 + rng.below(10_000) as usize,
                    _ => 1 + rng.below(300) as usize,
                };
                let mut d = vec![0u8; len];
                rng.fill(&mut d);
                Op::Write(d)
            }
            4 | 5 => match rng.below(3) {
                0 => Op::Seek(SeekFrom::Start(rng.below(70_000))),
                1 => Op::Seek(SeekFrom::Current(rng.below(2000) as i64 - 1000)),
                _ => Op::Seek(SeekFrom::End(-(rng.below(100) as i64))),
            },
            6 | 7 => Op::Read(1 + rng.below(9000) as usize),
            8 => Op::Flush,
            9 => Op::SetLen(rng.below(80_000)),
            10 => Op::SyncAll,
            _ => Op::Reopen,
        })
        .collect()
}

fn set_limit(bytes: Option<u64>) {
    unsafe {
        libc::signal(libc::SIGXFSZ, libc::SIG_IGN);
        let lim = libc::rlimit { rlim_cur: bytes.unwrap_or(libc::RLIM_INFINITY), rlim_max: libc::RLIM_INFINITY };
        libc::setrlimit(libc::RLIMIT_FSIZE, &lim);
    }
}

macro_rules! run_ops {
    ($file_ty:ty, $opts:ty, $path:expr, $ops:expr, $ext:path) => {{
        use $ext::{AsyncReadExt, AsyncSeekExt, AsyncWriteExt};
        let mut log: Vec<String> = Vec::new();
        let open = || async { <$opts>::new().read(true).write(true).create(true).open($path).await };
        let mut f: $file_ty = open().await.expect("open");
        for op in $ops.iter() {
            let line = match op {
                Op::Write(d) => format!("write {} -> {:?}", d.len(), f.write_all(d).await.map_err(|e| e.kind())),
                Op::Seek(p) => format!("seek {:?} -> {:?}", p, f.seek(*p).await.map_err(|e| e.kind())),
                Op::Read(n) => {
                    let mut buf = vec![0u8; *n];
                    match f.read(&mut buf).await {
                        Ok(k) => {
                            let mut h = 0u64;
                            for b in &buf[..k] {
                                h = h.wrapping_mul(131).wrapping_add(*b as u64);
                            }
                            // a read may legally be short; the kernel never is on a regular file
                            format!("read {} -> Ok({} bytes, {:x})", n, k, h)
                        }
                        Err(e) => format!("read {} -> Err({:?})", n, e.kind()),
                    }
                }
                Op::Flush => format!("flush -> {:?}", f.flush().await.map_err(|e| e.kind())),
                Op::SetLen(n) => format!("set_len {} -> {:?}", n, f.set_len(*n).await.map_err(|e| e.kind())),
                Op::SyncAll => format!("sync_all -> {:?}", f.sync_all().await.map_err(|e| e.kind())),
                Op::Reopen => {
                    drop(f);
                    f = open().await.expect("reopen");
                    "reopen".to_string()
                }
            };
            log.push(line);
        }
        drop(f);
        log
    }};
}

fn content(path: &str) -> Vec<u8> {
    set_limit(None);
    std::fs::read(path).unwrap_or_default()
}

fn main() {
    let args: Vec<String> = std::env::args().collect();
    let n: u64 = args.get(1).and_then(|s| s.parse().ok()).unwrap_or(2000);
    let seed: u64 = args.get(2).and_then(|s| s.parse().ok()).unwrap_or(1);
    let dir = std::env::temp_dir().join(format!("bitasim-fidelity.{}", std::process::id()));
    std::fs::create_dir_all(&dir).unwrap();
    let path = dir.join("f.bin");
    let path = path.to_str().unwrap().to_string();
    let mut mismatches: Vec<String> = Vec::new();
    let mut ops_total = 0u64;
    let mut errors_seen = 0u64;
    for i in 0..n {
        let mut rng = Rng::new(simkit::prng::mix(&[seed, i]));
        let ops = gen_ops(&mut rng);
        let limit = if rng.below(3) == 0 { None } else { Some(1 + rng.below(70_000)) };
        ops_total += ops.len() as u64;
        // real tokio
        let _ = std::fs::remove_file(&path);
        set_limit(limit);
        // one blocking thread: the real pool is then FIFO like the simulator's FIFO schedules (with
        // more threads the write of a dropped handle races with the next handle's first operation,
        // in the real pool as in the simulator's drawn-order schedule).
        // a runtime per sequence: dropping it waits for the blocking pool, i.e. for the write of
        // a handle that was dropped while still busy (a mandatory task), exactly what the
        // simulator's shutdown does
        let rt = real_tokio::runtime::Builder::new_current_thread().max_blocking_threads(1).build().unwrap();
        let real_log = rt.block_on(async { run_ops!(real_tokio::fs::File, real_tokio::fs::OpenOptions, &path, ops, real_tokio::io) });
        drop(rt);
        let real_content = content(&path);
        errors_seen += real_log.iter().filter(|l| l.contains("Err(") || l.contains("Err(")).count() as u64;
        // the port under three schedules
        let reopens = ops.iter().any(|o| matches!(o, Op::Reopen));
        for (name, eager, fifo) in [("eager", 100u32, true), ("lazy", 0u32, true), ("mixed", 50u32, false)] {
            // with a drawn (non-FIFO) order the still pending write of a dropped handle may run
            // after the first operation of the next handle: legal for the real pool as well (two
            // handles, two threads), so only single-handle sequences are compared there
            if !fifo && reopens {
                continue;
            }
            let _ = std::fs::remove_file(&path);
            set_limit(limit);
            let mut sim = simkit::Sim::new(simkit::Tape::search(simkit::prng::mix(&[seed, i, eager as u64])));
            sim.sched.eager_pct = eager;
            sim.sched.fifo = fifo;
            simkit::install(sim);
            let ops2 = ops.clone();
            let p2 = path.clone();
            let end = simkit::exec::block_on(async move { run_ops!(tokio::fs::File, tokio::fs::OpenOptions, &p2, ops2, tokio::io) });
            let _ = simkit::uninstall();
            let port_log = match end {
                simkit::exec::End::Done(l) => l,
                other => vec![format!("{:?}", other.kind())],
            };
            let port_content = content(&path);
            if port_log != real_log || port_content != real_content {
                let k = port_log.iter().zip(real_log.iter()).position(|(a, b)| a != b);
                if mismatches.len() < 5 {
                    mismatches.push(format!(
                        "sequence {} schedule {} limit {:?}: first differing op {:?}: port {:?} vs real {:?}; content equal: {}; ops {:?}",
                        i,
                        name,
                        limit,
                        k,
                        k.map(|k| &port_log[k]),
                        k.map(|k| &real_log[k]),
                        port_content == real_content,
                        ops.iter().map(|o| match o { Op::Write(d) => format!("Write({})", d.len()), o => format!("{:?}", o) }).collect::<Vec<_>>()
                    ));
                } else {
                    mismatches.push(String::new());
                }
            }
        }
    }
    set_limit(None);
    let _ = std::fs::remove_dir_all(&dir);
    println!(
        "{{\"sequences\": {}, \"operations\": {}, \"schedules_per_sequence\": 3, \"operations_that_returned_an_error_in_real_tokio\": {}, \"mismatches\": {}, \"first\": {:?}}}",
        n,
        ops_total,
        errors_seen,
        mismatches.len(),
        mismatches.iter().filter(|m| !m.is_empty()).collect::<Vec<_>>()
    );
    std::process::exit(if mismatches.is_empty() { 0 } else { 1 });
}
