use std::io::{self, Write};
use std::pin::Pin;
use std::task::{Context, Poll};

use real_tokio::io::AsyncWrite;

/// `tokio::io::stdout()` / `stderr()`: tokio hands the bytes to a blocking task that writes
/// them to fd 1 / 2. Here the write happens at once, through std (and therefore through the
/// syscall seam, where the harness captures the output of the simulated process).
#[derive(Debug)]
pub struct Stdout {
    _p: (),
}
#[derive(Debug)]
pub struct Stderr {
    _p: (),
}

pub fn stdout() -> Stdout {
    Stdout { _p: () }
}
pub fn stderr() -> Stderr {
    Stderr { _p: () }
}

impl AsyncWrite for Stdout {
    fn poll_write(self: Pin<&mut Self>, _cx: &mut Context<'_>, buf: &[u8]) -> Poll<io::Result<usize>> {
        simkit::exec::yield_point();
        Poll::Ready(io::stdout().write(buf))
    }
    fn poll_flush(self: Pin<&mut Self>, _cx: &mut Context<'_>) -> Poll<io::Result<()>> {
        Poll::Ready(io::stdout().flush())
    }
    fn poll_shutdown(self: Pin<&mut Self>, _cx: &mut Context<'_>) -> Poll<io::Result<()>> {
        Poll::Ready(io::stdout().flush())
    }
}

impl AsyncWrite for Stderr {
    fn poll_write(self: Pin<&mut Self>, _cx: &mut Context<'_>, buf: &[u8]) -> Poll<io::Result<usize>> {
        simkit::exec::yield_point();
        Poll::Ready(io::stderr().write(buf))
    }
    fn poll_flush(self: Pin<&mut Self>, _cx: &mut Context<'_>) -> Poll<io::Result<()>> {
        Poll::Ready(io::stderr().flush())
    }
    fn poll_shutdown(self: Pin<&mut Self>, _cx: &mut Context<'_>) -> Poll<io::Result<()>> {
        Poll::Ready(io::stderr().flush())
    }
}
