use std::fmt;
use std::future::Future;
use std::pin::Pin;
use std::task::{Context, Poll};

use simkit::exec::{spawn_pool_task, yield_point, SharedSlot};

pub struct JoinHandle<T> {
    slot: SharedSlot<T>,
}

impl<T> Unpin for JoinHandle<T> {}

impl<T> fmt::Debug for JoinHandle<T> {
    fn fmt(&self, f: &mut fmt::Formatter<'_>) -> fmt::Result {
        f.write_str("JoinHandle")
    }
}

pub struct JoinError {
    id: u64,
    msg: String,
}

impl JoinError {
    pub fn is_panic(&self) -> bool {
        true
    }
    pub fn is_cancelled(&self) -> bool {
        false
    }
}

impl fmt::Display for JoinError {
    fn fmt(&self, f: &mut fmt::Formatter<'_>) -> fmt::Result {
        write!(f, "task {} panicked with message {:?}", self.id, self.msg)
    }
}
impl fmt::Debug for JoinError {
    fn fmt(&self, f: &mut fmt::Formatter<'_>) -> fmt::Result {
        write!(f, "JoinError::Panic(Id({}), {:?}, ...)", self.id, self.msg)
    }
}
impl std::error::Error for JoinError {}

impl From<JoinError> for std::io::Error {
    fn from(src: JoinError) -> std::io::Error {
        std::io::Error::new(std::io::ErrorKind::Other, "task panicked")
            .also(|_| drop(src))
    }
}

trait Also: Sized {
    fn also(self, f: impl FnOnce(&Self)) -> Self {
        f(&self);
        self
    }
}
impl Also for std::io::Error {}

impl<T> Future for JoinHandle<T> {
    type Output = Result<T, JoinError>;
    fn poll(self: Pin<&mut Self>, cx: &mut Context<'_>) -> Poll<Self::Output> {
        yield_point();
        let mut g = self.slot.lock().unwrap();
        match g.value.take() {
            Some(Ok(v)) => Poll::Ready(Ok(v)),
            Some(Err(msg)) => Poll::Ready(Err(JoinError { id: g.task_id, msg })),
            None => {
                g.waker = Some(cx.waker().clone());
                Poll::Pending
            }
        }
    }
}

pub fn spawn_blocking<F, R>(f: F) -> JoinHandle<R>
where
    F: FnOnce() -> R + Send + 'static,
    R: Send + 'static,
{
    JoinHandle { slot: spawn_pool_task("blocking", false, f) }
}

/// tokio's `spawn_mandatory_blocking`: the task runs even if the runtime shuts down first.
pub(crate) fn spawn_mandatory_blocking<F, R>(f: F) -> Option<JoinHandle<R>>
where
    F: FnOnce() -> R + Send + 'static,
    R: Send + 'static,
{
    Some(JoinHandle { slot: spawn_pool_task("mandatory", true, f) })
}

#[doc(hidden)]
pub fn spawn_blocking_detached<F: FnOnce() + Send + 'static>(f: F) {
    let _ = spawn_pool_task("blocking", false, f);
}
