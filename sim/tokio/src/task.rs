use std::fmt;
use std::future::Future;
use std::pin::Pin;
use std::task::{Context, Poll};

use simkit::exec::{spawn_pool_task, yield_point, SharedSlot};

pub struct JoinHandle<T> {
    slot: SharedSlot<T>,
}

impl<T> Unpin for JoinHandle<T> {}

impl<T> fmt::Debug for JoinHandle<T> {
    fn fmt(&self, f: &mut fmt::Formatter<'_>) -> fmt::Result {
        f.write_str("JoinHandle")
    }
}

pub struct JoinError {
    id: u64,
    msg: String,
}

impl JoinError {
    pub fn is_panic(&self) -> bool {
        true
    }
    pub fn is_cancelled(&self) -> bool {
        false
    }
}

impl fmt::Display for JoinError {
    fn fmt(&self, f: &mut fmt::Formatter<'_>) -> fmt::Result {
        write!(f, "task {} panicked with message {:?}", self.id, self.msg)
    }
}
impl fmt::Debug for JoinError {
    fn fmt(&self, f: &mut fmt::Formatter<'_>) -> fmt::Result {
        write!(f, "JoinError::Panic(Id({}), {:?}, ...)", self.id, self.msg)
    }
}
impl std::error::Error for JoinError {}

impl From<JoinError> for std::io::Error {
    fn from(src: JoinError) -> std::io::Error {
        std::io::Error::new(std::io::ErrorKind::Other, "task panicked")
            .also(|_| drop(src))
    }
}

trait Also: Sized {
    fn also(self, f: impl FnOnce(&Self)) -> Self {
        f(&self);
        self
    }
}
impl Also for std::io::Error {}

impl<T> Future for JoinHandle<T> {
    type Output = Result<T, JoinError>;
    fn poll(self: Pin<&mut Self>, cx: &mut Context<'_>) -> Poll<Self::Output> {
        yield_point();
        let mut g = self.slot.lock().unwrap();
        match g.value.take() {
            Some(Ok(v)) => Poll::Ready(Ok(v)),
            Some(Err(msg)) => Poll::Ready(Err(JoinError { id: g.task_id, msg })),
            None => {
                g.waker = Some(cx.waker().clone());
                Poll::Pending
            }
        }
    }
}

pub fn spawn_blocking<F, R>(f: F) -> JoinHandle<R>
where
    F: FnOnce() -> R + Send + 'static,
    R: Send + 'static,
{
    JoinHandle { slot: spawn_pool_task("blocking", false, f) }
}

/// tokio's `spawn_mandatory_blocking`: the task runs even if the runtime shuts down first.
pub(crate) fn spawn_mandatory_blocking<F, R>(f: F) -> Option<JoinHandle<R>>
where
    F: FnOnce() -> R + Send + 'static,
    R: Send + 'static,
{
    Some(JoinHandle { slot: spawn_pool_task("mandatory", true, f) })
}

#[doc(hidden)]
pub fn spawn_blocking_detached<F: FnOnce() + Send + 'static>(f: F) {
    let _ = spawn_pool_task("blocking", false, f);
}


/// tokio::spawn: an async task on the simulator's executor.
pub fn spawn<F>(future: F) -> JoinHandle<F::Output>
where
    F: Future + Send + 'static,
    F::Output: Send + 'static,
{
    use std::sync::{Arc, Mutex};
    let slot: SharedSlot<F::Output> = Arc::new(Mutex::new(simkit::exec::Slot { value: None, waker: None, task_id: 0 }));
    let slot2 = slot.clone();
    let wrapped = async move {
        let r = CatchUnwind { fut: Box::pin(future) }.await;
        let waker = {
            let mut g = slot2.lock().unwrap();
            g.value = Some(r);
            g.waker.take()
        };
        if let Some(w) = waker {
            w.wake();
        }
    };
    let id = simkit::exec::spawn_async(Box::pin(wrapped));
    slot.lock().unwrap().task_id = id;
    JoinHandle { slot }
}

struct CatchUnwind<T> {
    fut: Pin<Box<dyn Future<Output = T> + Send>>,
}

impl<T> Future for CatchUnwind<T> {
    type Output = Result<T, String>;
    fn poll(mut self: Pin<&mut Self>, cx: &mut Context<'_>) -> Poll<Self::Output> {
        let fut = &mut self.fut;
        match std::panic::catch_unwind(std::panic::AssertUnwindSafe(|| fut.as_mut().poll(cx))) {
            Ok(Poll::Ready(v)) => Poll::Ready(Ok(v)),
            Ok(Poll::Pending) => Poll::Pending,
            Err(p) => Poll::Ready(Err(p.downcast_ref::<&str>().map(|s| s.to_string()).or_else(|| p.downcast_ref::<String>().cloned()).unwrap_or_else(|| "panic".into()))),
        }
    }
}

/// tokio::task::yield_now
pub async fn yield_now() {
    struct YieldNow(bool);
    impl Future for YieldNow {
        type Output = ();
        fn poll(mut self: Pin<&mut Self>, cx: &mut Context<'_>) -> Poll<()> {
            if self.0 {
                return Poll::Ready(());
            }
            self.0 = true;
            cx.waker().wake_by_ref();
            Poll::Pending
        }
    }
    YieldNow(false).await
}


/// tokio::task::block_in_place: the closure runs where it stands (on the multi-threaded runtime
/// the other workers would take over the remaining tasks; the simulator has one "worker")
pub fn block_in_place<F, R>(f: F) -> R
where
    F: FnOnce() -> R,
{
    yield_point();
    f()
}

impl<T> JoinHandle<T> {
    /// true once the task has produced its result (or panicked)
    pub fn is_finished(&self) -> bool {
        self.slot.lock().unwrap().value.is_some()
    }
    /// Cancellation is not modelled for blocking tasks (tokio cannot cancel a running one
    /// either); an async task keeps running until the runtime shuts down.
    pub fn abort(&self) {}
}

/// tokio::task::JoinSet on the simulator's executor
pub struct JoinSet<T> {
    handles: Vec<JoinHandle<T>>,
}

impl<T: Send + 'static> Default for JoinSet<T> {
    fn default() -> Self {
        Self::new()
    }
}

impl<T: Send + 'static> JoinSet<T> {
    pub fn new() -> Self {
        JoinSet { handles: Vec::new() }
    }
    pub fn len(&self) -> usize {
        self.handles.len()
    }
    pub fn is_empty(&self) -> bool {
        self.handles.is_empty()
    }
    pub fn spawn<F>(&mut self, task: F)
    where
        F: Future<Output = T> + Send + 'static,
    {
        self.handles.push(spawn(task));
    }
    pub fn spawn_blocking<F>(&mut self, f: F)
    where
        F: FnOnce() -> T + Send + 'static,
    {
        self.handles.push(spawn_blocking(f));
    }
    /// the next task to finish, in completion order (ties: spawn order)
    pub async fn join_next(&mut self) -> Option<Result<T, JoinError>> {
        if self.handles.is_empty() {
            return None;
        }
        std::future::poll_fn(|cx| {
            for i in 0..self.handles.len() {
                if let Poll::Ready(r) = Pin::new(&mut self.handles[i]).poll(cx) {
                    self.handles.remove(i);
                    return Poll::Ready(Some(r));
                }
            }
            Poll::Pending
        })
        .await
    }
    pub fn abort_all(&mut self) {}
    pub fn detach_all(&mut self) {
        self.handles.clear();
    }
    pub async fn shutdown(&mut self) {
        self.handles.clear();
    }
}
