//! Facade crate named `tokio`. Everything bita uses that does not touch a thread, a clock or
//! the OS is re-exported from the real tokio 1.42.0 (`AsyncRead/Write/Seek`, the `*Ext`
//! traits, `io::copy`, `ReadBuf`, `pin!`). Everything that does is owned by the simulator:
//! `task::spawn_blocking`, `fs::File`/`OpenOptions` (a port of tokio's own state machine on
//! top of the simulated blocking pool), `time::sleep`, `io::stdin`.

pub use real_tokio::pin;
pub use real_tokio::sync;
pub use real_tokio::{join, select, try_join};
pub use task::spawn;

#[doc(hidden)]
pub mod macros {
    pub use real_tokio::macros::*;
}

pub mod io {
    pub use real_tokio::io::*;
    pub use crate::stdin::{stdin, Stdin};
    pub use crate::stdout::{stderr, stdout, Stderr, Stdout};
}

pub mod task;
pub mod runtime;
pub mod fs;
pub mod time;
mod stdin;
mod stdout;

pub use task::spawn_blocking_detached as __spawn_blocking_detached;
