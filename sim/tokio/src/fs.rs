//! Port of tokio 1.42.0 `src/fs/file.rs`, `src/fs/open_options.rs` and the `Buf` of
//! `src/io/blocking.rs`. The state machine (Idle/Busy, write-behind through a mandatory
//! blocking task, `last_write_err` hand-over, 2 MiB max buffer, seek compensation for
//! unread buffered data) is tokio's, line for line; only `spawn_blocking` /
//! `spawn_mandatory_blocking` are the simulator's, and `StdFile` stays `std::fs::File`.

use std::cmp;
use std::fmt;
use std::fs::{Metadata, Permissions};
use std::future::Future;
use std::io::{self, Read, Seek, SeekFrom, Write};
use std::path::Path;
use std::pin::Pin;
use std::sync::Arc;
use std::task::{ready, Context, Poll};

use real_tokio::io::{AsyncRead, AsyncSeek, AsyncWrite, ReadBuf};
use real_tokio::sync::Mutex;

use crate::task::{spawn_blocking, spawn_mandatory_blocking, JoinHandle};
use std::fs::File as StdFile;
use std::fs::OpenOptions as StdOpenOptions;
use std::os::unix::fs::OpenOptionsExt;

pub(crate) const DEFAULT_MAX_BUF_SIZE: usize = 2 * 1024 * 1024;

pub(crate) async fn asyncify<F, T>(f: F) -> io::Result<T>
where
    F: FnOnce() -> io::Result<T> + Send + 'static,
    T: Send + 'static,
{
    match spawn_blocking(f).await {
        Ok(res) => res,
        Err(_) => Err(io::Error::new(io::ErrorKind::Other, "background task failed")),
    }
}

#[derive(Debug)]
pub(crate) struct Buf {
    buf: Vec<u8>,
    pos: usize,
}

macro_rules! uninterruptibly {
    ($e:expr) => {{
        loop {
            match $e {
                Err(ref e) if e.kind() == io::ErrorKind::Interrupted => {}
                res => break res,
            }
        }
    }};
}

impl Buf {
    pub(crate) fn with_capacity(n: usize) -> Buf {
        Buf { buf: Vec::with_capacity(n), pos: 0 }
    }
    pub(crate) fn is_empty(&self) -> bool {
        self.len() == 0
    }
    pub(crate) fn len(&self) -> usize {
        self.buf.len() - self.pos
    }
    pub(crate) fn copy_to(&mut self, dst: &mut ReadBuf<'_>) -> usize {
        let n = cmp::min(self.len(), dst.remaining());
        dst.put_slice(&self.bytes()[..n]);
        self.pos += n;
        if self.pos == self.buf.len() {
            self.buf.truncate(0);
            self.pos = 0;
        }
        n
    }
    pub(crate) fn copy_from(&mut self, src: &[u8], max_buf_size: usize) -> usize {
        assert!(self.is_empty());
        let n = cmp::min(src.len(), max_buf_size);
        self.buf.extend_from_slice(&src[..n]);
        n
    }
    pub(crate) fn bytes(&self) -> &[u8] {
        &self.buf[self.pos..]
    }
    pub(crate) fn ensure_capacity_for(&mut self, bytes: &ReadBuf<'_>, max_buf_size: usize) {
        assert!(self.is_empty());
        let len = cmp::min(bytes.remaining(), max_buf_size);
        if self.buf.len() < len {
            self.buf.reserve(len - self.buf.len());
        }
        // as in tokio: the bytes are only ever written by read() before being looked at
        unsafe {
            self.buf.set_len(len);
        }
    }
    pub(crate) fn read_from<T: Read>(&mut self, rd: &mut T) -> io::Result<usize> {
        let res = uninterruptibly!(rd.read(&mut self.buf));
        if let Ok(n) = res {
            self.buf.truncate(n);
        } else {
            self.buf.clear();
        }
        assert_eq!(self.pos, 0);
        res
    }
    pub(crate) fn write_to<T: Write>(&mut self, wr: &mut T) -> io::Result<()> {
        assert_eq!(self.pos, 0);
        // `write_all` already ignores interrupts
        let res = wr.write_all(&self.buf);
        self.buf.clear();
        res
    }
    pub(crate) fn discard_read(&mut self) -> i64 {
        let ret = -(self.bytes().len() as i64);
        self.pos = 0;
        self.buf.truncate(0);
        ret
    }
    pub(crate) fn copy_from_bufs(&mut self, bufs: &[io::IoSlice<'_>], max_buf_size: usize) -> usize {
        assert!(self.is_empty());
        let mut rem = max_buf_size;
        for buf in bufs {
            if rem == 0 {
                break;
            }
            let len = buf.len().min(rem);
            self.buf.extend_from_slice(&buf[..len]);
            rem -= len;
        }
        max_buf_size - rem
    }
}

pub struct File {
    std: Arc<StdFile>,
    inner: Mutex<Inner>,
    max_buf_size: usize,
}

struct Inner {
    state: State,
    /// Errors from writes/flushes
    last_write_err: Option<io::ErrorKind>,
    pos: u64,
}

#[derive(Debug)]
enum State {
    Idle(Option<Buf>),
    Busy(JoinHandle<(Operation, Buf)>),
}

#[derive(Debug)]
enum Operation {
    Read(io::Result<usize>),
    Write(io::Result<()>),
    Seek(io::Result<u64>),
}

impl File {
    pub async fn open(path: impl AsRef<Path>) -> io::Result<File> {
        let path = path.as_ref().to_owned();
        let std = asyncify(|| StdFile::open(path)).await?;
        Ok(File::from_std(std))
    }

    pub async fn create(path: impl AsRef<Path>) -> io::Result<File> {
        let path = path.as_ref().to_owned();
        let std_file = asyncify(move || StdFile::create(path)).await?;
        Ok(File::from_std(std_file))
    }

    pub async fn create_new<P: AsRef<Path>>(path: P) -> std::io::Result<File> {
        Self::options().read(true).write(true).create_new(true).open(path).await
    }

    #[must_use]
    pub fn options() -> OpenOptions {
        OpenOptions::new()
    }

    pub fn from_std(std: StdFile) -> File {
        File {
            std: Arc::new(std),
            inner: Mutex::new(Inner {
                state: State::Idle(Some(Buf::with_capacity(0))),
                last_write_err: None,
                pos: 0,
            }),
            max_buf_size: DEFAULT_MAX_BUF_SIZE,
        }
    }

    pub async fn sync_all(&self) -> io::Result<()> {
        let mut inner = self.inner.lock().await;
        inner.complete_inflight().await;
        let std = self.std.clone();
        asyncify(move || std.sync_all()).await
    }

    pub async fn sync_data(&self) -> io::Result<()> {
        let mut inner = self.inner.lock().await;
        inner.complete_inflight().await;
        let std = self.std.clone();
        asyncify(move || std.sync_data()).await
    }

    pub async fn set_len(&self, size: u64) -> io::Result<()> {
        let mut inner = self.inner.lock().await;
        inner.complete_inflight().await;

        let mut buf = match inner.state {
            State::Idle(ref mut buf_cell) => buf_cell.take().unwrap(),
            _ => unreachable!(),
        };

        let seek = if !buf.is_empty() {
            Some(SeekFrom::Current(buf.discard_read()))
        } else {
            None
        };

        let std = self.std.clone();

        inner.state = State::Busy(spawn_blocking(move || {
            let res = if let Some(seek) = seek {
                (&*std).seek(seek).and_then(|_| std.set_len(size))
            } else {
                std.set_len(size)
            }
            .map(|()| 0); // the value is discarded later

            // Return the result as a seek
            (Operation::Seek(res), buf)
        }));

        let (op, buf) = match inner.state {
            State::Idle(_) => unreachable!(),
            State::Busy(ref mut rx) => rx.await?,
        };

        inner.state = State::Idle(Some(buf));

        match op {
            Operation::Seek(res) => res.map(|pos| {
                inner.pos = pos;
            }),
            _ => unreachable!(),
        }
    }

    pub async fn metadata(&self) -> io::Result<Metadata> {
        let std = self.std.clone();
        asyncify(move || std.metadata()).await
    }

    pub async fn try_clone(&self) -> io::Result<File> {
        self.inner.lock().await.complete_inflight().await;
        let std = self.std.clone();
        let std_file = asyncify(move || std.try_clone()).await?;
        Ok(File::from_std(std_file))
    }

    pub async fn into_std(mut self) -> StdFile {
        self.inner.get_mut().complete_inflight().await;
        Arc::try_unwrap(self.std).expect("Arc::try_unwrap failed")
    }

    pub fn try_into_std(mut self) -> Result<StdFile, Self> {
        match Arc::try_unwrap(self.std) {
            Ok(file) => Ok(file),
            Err(std_file_arc) => {
                self.std = std_file_arc;
                Err(self)
            }
        }
    }

    pub async fn set_permissions(&self, perm: Permissions) -> io::Result<()> {
        let std = self.std.clone();
        asyncify(move || std.set_permissions(perm)).await
    }

    pub fn set_max_buf_size(&mut self, max_buf_size: usize) {
        self.max_buf_size = max_buf_size;
    }
}

impl AsyncRead for File {
    fn poll_read(self: Pin<&mut Self>, cx: &mut Context<'_>, dst: &mut ReadBuf<'_>) -> Poll<io::Result<()>> {
        let me = self.get_mut();
        let inner = me.inner.get_mut();

        loop {
            match inner.state {
                State::Idle(ref mut buf_cell) => {
                    let mut buf = buf_cell.take().unwrap();

                    if !buf.is_empty() {
                        buf.copy_to(dst);
                        *buf_cell = Some(buf);
                        return Poll::Ready(Ok(()));
                    }

                    buf.ensure_capacity_for(dst, me.max_buf_size);
                    let std = me.std.clone();

                    inner.state = State::Busy(spawn_blocking(move || {
                        let res = buf.read_from(&mut &*std);
                        (Operation::Read(res), buf)
                    }));
                }
                State::Busy(ref mut rx) => {
                    let (op, mut buf) = ready!(Pin::new(rx).poll(cx))?;

                    match op {
                        Operation::Read(Ok(_)) => {
                            buf.copy_to(dst);
                            inner.state = State::Idle(Some(buf));
                            return Poll::Ready(Ok(()));
                        }
                        Operation::Read(Err(e)) => {
                            assert!(buf.is_empty());

                            inner.state = State::Idle(Some(buf));
                            return Poll::Ready(Err(e));
                        }
                        Operation::Write(Ok(())) => {
                            assert!(buf.is_empty());
                            inner.state = State::Idle(Some(buf));
                            continue;
                        }
                        Operation::Write(Err(e)) => {
                            assert!(inner.last_write_err.is_none());
                            inner.last_write_err = Some(e.kind());
                            inner.state = State::Idle(Some(buf));
                        }
                        Operation::Seek(result) => {
                            assert!(buf.is_empty());
                            inner.state = State::Idle(Some(buf));
                            if let Ok(pos) = result {
                                inner.pos = pos;
                            }
                            continue;
                        }
                    }
                }
            }
        }
    }
}

impl AsyncSeek for File {
    fn start_seek(self: Pin<&mut Self>, mut pos: SeekFrom) -> io::Result<()> {
        let me = self.get_mut();
        let inner = me.inner.get_mut();

        match inner.state {
            State::Busy(_) => Err(io::Error::new(
                io::ErrorKind::Other,
                "other file operation is pending, call poll_complete before start_seek",
            )),
            State::Idle(ref mut buf_cell) => {
                let mut buf = buf_cell.take().unwrap();

                // Factor in any unread data from the buf
                if !buf.is_empty() {
                    let n = buf.discard_read();

                    if let SeekFrom::Current(ref mut offset) = pos {
                        *offset += n;
                    }
                }

                let std = me.std.clone();

                inner.state = State::Busy(spawn_blocking(move || {
                    let res = (&*std).seek(pos);
                    (Operation::Seek(res), buf)
                }));
                Ok(())
            }
        }
    }

    fn poll_complete(mut self: Pin<&mut Self>, cx: &mut Context<'_>) -> Poll<io::Result<u64>> {
        let inner = self.inner.get_mut();

        loop {
            match inner.state {
                State::Idle(_) => return Poll::Ready(Ok(inner.pos)),
                State::Busy(ref mut rx) => {
                    let (op, buf) = ready!(Pin::new(rx).poll(cx))?;
                    inner.state = State::Idle(Some(buf));

                    match op {
                        Operation::Read(_) => {}
                        Operation::Write(Err(e)) => {
                            assert!(inner.last_write_err.is_none());
                            inner.last_write_err = Some(e.kind());
                        }
                        Operation::Write(_) => {}
                        Operation::Seek(res) => {
                            if let Ok(pos) = res {
                                inner.pos = pos;
                            }
                            return Poll::Ready(res);
                        }
                    }
                }
            }
        }
    }
}

impl AsyncWrite for File {
    fn poll_write(self: Pin<&mut Self>, cx: &mut Context<'_>, src: &[u8]) -> Poll<io::Result<usize>> {
        let me = self.get_mut();
        let inner = me.inner.get_mut();

        if let Some(e) = inner.last_write_err.take() {
            return Poll::Ready(Err(e.into()));
        }

        loop {
            match inner.state {
                State::Idle(ref mut buf_cell) => {
                    let mut buf = buf_cell.take().unwrap();

                    let seek = if !buf.is_empty() {
                        Some(SeekFrom::Current(buf.discard_read()))
                    } else {
                        None
                    };

                    let n = buf.copy_from(src, me.max_buf_size);
                    let std = me.std.clone();

                    let blocking_task_join_handle = spawn_mandatory_blocking(move || {
                        let res = if let Some(seek) = seek {
                            (&*std).seek(seek).and_then(|_| buf.write_to(&mut &*std))
                        } else {
                            buf.write_to(&mut &*std)
                        };

                        (Operation::Write(res), buf)
                    })
                    .ok_or_else(|| io::Error::new(io::ErrorKind::Other, "background task failed"))?;

                    inner.state = State::Busy(blocking_task_join_handle);

                    return Poll::Ready(Ok(n));
                }
                State::Busy(ref mut rx) => {
                    let (op, buf) = ready!(Pin::new(rx).poll(cx))?;
                    inner.state = State::Idle(Some(buf));

                    match op {
                        Operation::Read(_) => {
                            // We don't care about the result here. The fact
                            // that the cursor has advanced will be reflected in
                            // the next iteration of the loop
                            continue;
                        }
                        Operation::Write(res) => {
                            // If the previous write was successful, continue.
                            // Otherwise, error.
                            res?;
                            continue;
                        }
                        Operation::Seek(_) => {
                            // Ignore the seek
                            continue;
                        }
                    }
                }
            }
        }
    }

    fn poll_write_vectored(
        self: Pin<&mut Self>,
        cx: &mut Context<'_>,
        bufs: &[io::IoSlice<'_>],
    ) -> Poll<Result<usize, io::Error>> {
        let me = self.get_mut();
        let inner = me.inner.get_mut();

        if let Some(e) = inner.last_write_err.take() {
            return Poll::Ready(Err(e.into()));
        }

        loop {
            match inner.state {
                State::Idle(ref mut buf_cell) => {
                    let mut buf = buf_cell.take().unwrap();

                    let seek = if !buf.is_empty() {
                        Some(SeekFrom::Current(buf.discard_read()))
                    } else {
                        None
                    };

                    let n = buf.copy_from_bufs(bufs, me.max_buf_size);
                    let std = me.std.clone();

                    let blocking_task_join_handle = spawn_mandatory_blocking(move || {
                        let res = if let Some(seek) = seek {
                            (&*std).seek(seek).and_then(|_| buf.write_to(&mut &*std))
                        } else {
                            buf.write_to(&mut &*std)
                        };

                        (Operation::Write(res), buf)
                    })
                    .ok_or_else(|| io::Error::new(io::ErrorKind::Other, "background task failed"))?;

                    inner.state = State::Busy(blocking_task_join_handle);

                    return Poll::Ready(Ok(n));
                }
                State::Busy(ref mut rx) => {
                    let (op, buf) = ready!(Pin::new(rx).poll(cx))?;
                    inner.state = State::Idle(Some(buf));

                    match op {
                        Operation::Read(_) => continue,
                        Operation::Write(res) => {
                            res?;
                            continue;
                        }
                        Operation::Seek(_) => continue,
                    }
                }
            }
        }
    }

    fn is_write_vectored(&self) -> bool {
        true
    }

    fn poll_flush(mut self: Pin<&mut Self>, cx: &mut Context<'_>) -> Poll<Result<(), io::Error>> {
        let inner = self.inner.get_mut();
        inner.poll_flush(cx)
    }

    fn poll_shutdown(self: Pin<&mut Self>, cx: &mut Context<'_>) -> Poll<Result<(), io::Error>> {
        self.poll_flush(cx)
    }
}

impl From<StdFile> for File {
    fn from(std: StdFile) -> Self {
        Self::from_std(std)
    }
}

impl fmt::Debug for File {
    fn fmt(&self, fmt: &mut fmt::Formatter<'_>) -> fmt::Result {
        fmt.debug_struct("tokio::fs::File").field("std", &self.std).finish()
    }
}

impl std::os::unix::io::AsRawFd for File {
    fn as_raw_fd(&self) -> std::os::unix::io::RawFd {
        self.std.as_raw_fd()
    }
}

impl Inner {
    async fn complete_inflight(&mut self) {
        use std::future::poll_fn;
        poll_fn(|cx| self.poll_complete_inflight(cx)).await;
    }

    fn poll_complete_inflight(&mut self, cx: &mut Context<'_>) -> Poll<()> {
        match self.poll_flush(cx) {
            Poll::Ready(Err(e)) => {
                self.last_write_err = Some(e.kind());
                Poll::Ready(())
            }
            Poll::Ready(Ok(())) => Poll::Ready(()),
            Poll::Pending => Poll::Pending,
        }
    }

    fn poll_flush(&mut self, cx: &mut Context<'_>) -> Poll<Result<(), io::Error>> {
        if let Some(e) = self.last_write_err.take() {
            return Poll::Ready(Err(e.into()));
        }

        let (op, buf) = match self.state {
            State::Idle(_) => return Poll::Ready(Ok(())),
            State::Busy(ref mut rx) => ready!(Pin::new(rx).poll(cx))?,
        };

        // The buffer is not used here
        self.state = State::Idle(Some(buf));

        match op {
            Operation::Read(_) => Poll::Ready(Ok(())),
            Operation::Write(res) => Poll::Ready(res),
            Operation::Seek(_) => Poll::Ready(Ok(())),
        }
    }
}

#[derive(Clone, Debug)]
pub struct OpenOptions(StdOpenOptions);

impl OpenOptions {
    pub fn new() -> OpenOptions {
        OpenOptions(StdOpenOptions::new())
    }
    pub fn read(&mut self, read: bool) -> &mut OpenOptions {
        self.0.read(read);
        self
    }
    pub fn write(&mut self, write: bool) -> &mut OpenOptions {
        self.0.write(write);
        self
    }
    pub fn append(&mut self, append: bool) -> &mut OpenOptions {
        self.0.append(append);
        self
    }
    pub fn truncate(&mut self, truncate: bool) -> &mut OpenOptions {
        self.0.truncate(truncate);
        self
    }
    pub fn create(&mut self, create: bool) -> &mut OpenOptions {
        self.0.create(create);
        self
    }
    pub fn create_new(&mut self, create_new: bool) -> &mut OpenOptions {
        self.0.create_new(create_new);
        self
    }
    pub async fn open(&self, path: impl AsRef<Path>) -> io::Result<File> {
        let path = path.as_ref().to_owned();
        let opts = self.0.clone();
        let std = asyncify(move || opts.open(path)).await?;
        Ok(File::from_std(std))
    }
    pub fn mode(&mut self, mode: u32) -> &mut OpenOptions {
        self.0.mode(mode);
        self
    }
    pub fn custom_flags(&mut self, flags: i32) -> &mut OpenOptions {
        self.0.custom_flags(flags);
        self
    }
}

impl From<StdOpenOptions> for OpenOptions {
    fn from(options: StdOpenOptions) -> OpenOptions {
        OpenOptions(options)
    }
}

impl Default for OpenOptions {
    fn default() -> Self {
        Self::new()
    }
}

// ---------------------------------------------------------------------------------------
// free functions of tokio::fs: each is `asyncify(std::fs::...)` in tokio, and so it is here
// (one blocking task in the simulated pool)
// ---------------------------------------------------------------------------------------

pub async fn remove_file(path: impl AsRef<Path>) -> io::Result<()> {
    let path = path.as_ref().to_owned();
    asyncify(move || std::fs::remove_file(path)).await
}

pub async fn metadata(path: impl AsRef<Path>) -> io::Result<Metadata> {
    let path = path.as_ref().to_owned();
    asyncify(move || std::fs::metadata(path)).await
}

pub async fn symlink_metadata(path: impl AsRef<Path>) -> io::Result<Metadata> {
    let path = path.as_ref().to_owned();
    asyncify(move || std::fs::symlink_metadata(path)).await
}

pub async fn try_exists(path: impl AsRef<Path>) -> io::Result<bool> {
    let path = path.as_ref().to_owned();
    asyncify(move || path.try_exists()).await
}

pub async fn read(path: impl AsRef<Path>) -> io::Result<Vec<u8>> {
    let path = path.as_ref().to_owned();
    asyncify(move || std::fs::read(path)).await
}

pub async fn read_to_string(path: impl AsRef<Path>) -> io::Result<String> {
    let path = path.as_ref().to_owned();
    asyncify(move || std::fs::read_to_string(path)).await
}

pub async fn write(path: impl AsRef<Path>, contents: impl AsRef<[u8]>) -> io::Result<()> {
    let path = path.as_ref().to_owned();
    let contents = contents.as_ref().to_owned();
    asyncify(move || std::fs::write(path, contents)).await
}

pub async fn rename(from: impl AsRef<Path>, to: impl AsRef<Path>) -> io::Result<()> {
    let from = from.as_ref().to_owned();
    let to = to.as_ref().to_owned();
    asyncify(move || std::fs::rename(from, to)).await
}

pub async fn copy(from: impl AsRef<Path>, to: impl AsRef<Path>) -> io::Result<u64> {
    let from = from.as_ref().to_owned();
    let to = to.as_ref().to_owned();
    asyncify(move || std::fs::copy(from, to)).await
}

pub async fn create_dir(path: impl AsRef<Path>) -> io::Result<()> {
    let path = path.as_ref().to_owned();
    asyncify(move || std::fs::create_dir(path)).await
}

pub async fn create_dir_all(path: impl AsRef<Path>) -> io::Result<()> {
    let path = path.as_ref().to_owned();
    asyncify(move || std::fs::create_dir_all(path)).await
}

pub async fn remove_dir(path: impl AsRef<Path>) -> io::Result<()> {
    let path = path.as_ref().to_owned();
    asyncify(move || std::fs::remove_dir(path)).await
}

pub async fn remove_dir_all(path: impl AsRef<Path>) -> io::Result<()> {
    let path = path.as_ref().to_owned();
    asyncify(move || std::fs::remove_dir_all(path)).await
}

pub async fn canonicalize(path: impl AsRef<Path>) -> io::Result<std::path::PathBuf> {
    let path = path.as_ref().to_owned();
    asyncify(move || std::fs::canonicalize(path)).await
}

pub async fn read_link(path: impl AsRef<Path>) -> io::Result<std::path::PathBuf> {
    let path = path.as_ref().to_owned();
    asyncify(move || std::fs::read_link(path)).await
}

pub async fn hard_link(src: impl AsRef<Path>, dst: impl AsRef<Path>) -> io::Result<()> {
    let src = src.as_ref().to_owned();
    let dst = dst.as_ref().to_owned();
    asyncify(move || std::fs::hard_link(src, dst)).await
}

pub async fn symlink(src: impl AsRef<Path>, dst: impl AsRef<Path>) -> io::Result<()> {
    let src = src.as_ref().to_owned();
    let dst = dst.as_ref().to_owned();
    asyncify(move || std::os::unix::fs::symlink(src, dst)).await
}

pub async fn set_permissions(path: impl AsRef<Path>, perm: Permissions) -> io::Result<()> {
    let path = path.as_ref().to_owned();
    asyncify(move || std::fs::set_permissions(path, perm)).await
}
