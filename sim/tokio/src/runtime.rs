//! `tokio::runtime` as far as a `main()` needs it: `Runtime::new()?.block_on(fut)` (and the
//! `Builder` spellings of the same) run the future on the simulator's executor. A simulated
//! process whose main future does not complete -- scheduler budget exhausted, deadlock, process
//! death -- ends by unwinding with a `SimEnd` payload, which the harness catches around `main`.

use std::future::Future;
use std::io;
use std::time::Duration;

use simkit::exec::End;

/// payload of the unwinding that ends a simulated process whose main future did not complete
pub struct SimEnd(pub &'static str);

pub struct Runtime {
    handle: Handle,
}

#[derive(Clone)]
pub struct Handle;

impl Handle {
    pub fn current() -> Handle {
        Handle
    }
    pub fn spawn<F>(&self, fut: F) -> crate::task::JoinHandle<F::Output>
    where
        F: Future + Send + 'static,
        F::Output: Send + 'static,
    {
        crate::task::spawn(fut)
    }
    pub fn spawn_blocking<F, R>(&self, f: F) -> crate::task::JoinHandle<R>
    where
        F: FnOnce() -> R + Send + 'static,
        R: Send + 'static,
    {
        crate::task::spawn_blocking(f)
    }
    pub fn block_on<F: Future>(&self, fut: F) -> F::Output {
        block_on(fut)
    }
}

fn block_on<F: Future>(fut: F) -> F::Output {
    match simkit::exec::block_on(fut) {
        End::Done(v) => v,
        End::StepBudget => std::panic::resume_unwind(Box::new(SimEnd("StepBudget"))),
        End::Deadlock => std::panic::resume_unwind(Box::new(SimEnd("Deadlock"))),
        End::Crashed => std::panic::resume_unwind(Box::new(SimEnd("Crashed"))),
    }
}

impl Runtime {
    pub fn new() -> io::Result<Runtime> {
        Ok(Runtime { handle: Handle })
    }
    pub fn block_on<F: Future>(&self, fut: F) -> F::Output {
        block_on(fut)
    }
    pub fn handle(&self) -> &Handle {
        &self.handle
    }
    pub fn spawn<F>(&self, fut: F) -> crate::task::JoinHandle<F::Output>
    where
        F: Future + Send + 'static,
        F::Output: Send + 'static,
    {
        crate::task::spawn(fut)
    }
    pub fn spawn_blocking<F, R>(&self, f: F) -> crate::task::JoinHandle<R>
    where
        F: FnOnce() -> R + Send + 'static,
        R: Send + 'static,
    {
        crate::task::spawn_blocking(f)
    }
    pub fn shutdown_background(self) {}
    pub fn shutdown_timeout(self, _d: Duration) {}
}

pub struct Builder;

impl Builder {
    pub fn new_multi_thread() -> Builder {
        Builder
    }
    pub fn new_current_thread() -> Builder {
        Builder
    }
    pub fn enable_all(&mut self) -> &mut Self {
        self
    }
    pub fn enable_io(&mut self) -> &mut Self {
        self
    }
    pub fn enable_time(&mut self) -> &mut Self {
        self
    }
    pub fn worker_threads(&mut self, _n: usize) -> &mut Self {
        self
    }
    pub fn max_blocking_threads(&mut self, _n: usize) -> &mut Self {
        self
    }
    pub fn thread_name(&mut self, _n: impl Into<String>) -> &mut Self {
        self
    }
    pub fn thread_stack_size(&mut self, _n: usize) -> &mut Self {
        self
    }
    pub fn build(&mut self) -> io::Result<Runtime> {
        Runtime::new()
    }
}
