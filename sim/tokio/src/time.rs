use std::future::Future;
use std::pin::Pin;
use std::task::{Context, Poll};
pub use std::time::Duration;

/// Virtual-time sleep.
#[derive(Debug)]
pub struct Sleep {
    deadline: u64,
    registered: bool,
    timer: simkit::exec::TimerSlot,
}

pub fn sleep(duration: Duration) -> Sleep {
    let now = simkit::with(|s| {
        s.count("sleep");
        s.event("sleep", duration.as_nanos() as u64, 0);
        s.now_ns
    });
    Sleep { deadline: now.saturating_add(duration.as_nanos().min(u64::MAX as u128) as u64), registered: false, timer: simkit::exec::TimerSlot::new() }
}

impl Sleep {
    pub fn deadline_ns(&self) -> u64 {
        self.deadline
    }
    /// tokio's `Sleep::reset`: a new deadline for the same timer; the next poll registers it
    pub fn reset(mut self: Pin<&mut Self>, deadline: Instant) {
        self.deadline = deadline.0;
        self.registered = false;
    }
    pub fn deadline(&self) -> Instant {
        Instant(self.deadline)
    }
    pub fn is_elapsed(&self) -> bool {
        simkit::now_ns() >= self.deadline
    }
}

impl Future for Sleep {
    type Output = ();
    fn poll(mut self: Pin<&mut Self>, cx: &mut Context<'_>) -> Poll<()> {
        simkit::exec::yield_point();
        let now = simkit::now_ns();
        if now >= self.deadline && self.registered {
            return Poll::Ready(());
        }
        // like tokio, a fresh sleep is never ready on its first poll when its duration is > 0;
        // a zero sleep completes after one trip through the scheduler
        self.registered = true;
        let d = self.deadline;
        self.timer.arm(d, cx);
        Poll::Pending
    }
}


/// tokio::time::timeout on the virtual clock
pub async fn timeout<F: Future>(duration: Duration, future: F) -> Result<F::Output, Elapsed> {
    let mut sleep = Box::pin(sleep(duration));
    let mut future = Box::pin(future);
    std::future::poll_fn(move |cx| {
        if let Poll::Ready(v) = future.as_mut().poll(cx) {
            return Poll::Ready(Ok(v));
        }
        if sleep.as_mut().poll(cx).is_ready() {
            return Poll::Ready(Err(Elapsed(())));
        }
        Poll::Pending
    })
    .await
}

#[derive(Debug, PartialEq, Eq)]
pub struct Elapsed(());
impl std::fmt::Display for Elapsed {
    fn fmt(&self, f: &mut std::fmt::Formatter<'_>) -> std::fmt::Result {
        f.write_str("deadline has elapsed")
    }
}
impl std::error::Error for Elapsed {}


/// tokio::time::Instant on the virtual clock
#[derive(Clone, Copy, Debug, PartialEq, Eq, PartialOrd, Ord, Hash)]
pub struct Instant(u64);

impl Instant {
    pub fn now() -> Instant {
        Instant(simkit::now_ns())
    }
    pub fn elapsed(&self) -> Duration {
        Duration::from_nanos(simkit::now_ns().saturating_sub(self.0))
    }
    pub fn duration_since(&self, earlier: Instant) -> Duration {
        Duration::from_nanos(self.0.saturating_sub(earlier.0))
    }
    pub fn saturating_duration_since(&self, earlier: Instant) -> Duration {
        self.duration_since(earlier)
    }
    pub fn checked_add(&self, d: Duration) -> Option<Instant> {
        self.0.checked_add(d.as_nanos().min(u64::MAX as u128) as u64).map(Instant)
    }
}

impl std::ops::Add<Duration> for Instant {
    type Output = Instant;
    fn add(self, d: Duration) -> Instant {
        Instant(self.0.saturating_add(d.as_nanos().min(u64::MAX as u128) as u64))
    }
}
impl std::ops::Sub<Instant> for Instant {
    type Output = Duration;
    fn sub(self, o: Instant) -> Duration {
        self.duration_since(o)
    }
}

pub fn sleep_until(deadline: Instant) -> Sleep {
    let now = simkit::now_ns();
    sleep(Duration::from_nanos(deadline.0.saturating_sub(now)))
}
