use std::io;
use std::pin::Pin;
use std::task::{Context, Poll};

use real_tokio::io::{AsyncRead, ReadBuf};

/// Scripted stdin: the bytes come from `Sim::stdin`, split into fragments drawn from the tape.
#[derive(Debug)]
pub struct Stdin {
    /// the producer at the other end of the pipe pauses: nothing arrives before this instant
    paused_until: Option<u64>,
    timer: simkit::exec::TimerSlot,
}

pub fn stdin() -> Stdin {
    Stdin { paused_until: None, timer: simkit::exec::TimerSlot::new() }
}

impl AsyncRead for Stdin {
    fn poll_read(mut self: Pin<&mut Self>, cx: &mut Context<'_>, buf: &mut ReadBuf<'_>) -> Poll<io::Result<()>> {
        simkit::exec::yield_point();
        // a pause of the producer, in virtual time: milliseconds to half a minute, once in a while
        if let Some(t) = self.paused_until {
            if simkit::now_ns() < t {
                self.timer.arm(t, cx);
                return Poll::Pending;
            }
            self.paused_until = None;
        } else {
            let pause = simkit::with(|s| {
                let more = s.stdin.as_ref().map(|st| st.pos < st.data.len() && st.pos > 0).unwrap_or(false);
                if more && s.tape.chance(1, 24) {
                    Some(*s.tape.pick(&[1_000_000u64, 1_000_000_000, 4_900_000_000, 6_000_000_000, 11_000_000_000, 30_000_000_000]))
                } else {
                    None
                }
            });
            if let Some(d) = pause {
                simkit::count("stdin-producer-pause");
                let t = simkit::now_ns().saturating_add(d);
                self.paused_until = Some(t);
                self.timer.arm(t, cx);
                return Poll::Pending;
            }
        }
        let pending = simkit::with(|s| {
            let Some(st) = s.stdin.as_ref() else { return false };
            if st.pos >= st.data.len() {
                return false;
            }
            s.tape.chance(1, 4)
        });
        if pending {
            simkit::count("stdin-pending");
            cx.waker().wake_by_ref();
            return Poll::Pending;
        }
        let failed = simkit::with(|s| match s.stdin.as_ref() {
            Some(st) if st.fail_at.map(|f| st.pos >= f).unwrap_or(false) => {
                s.event("stdin-read-error", st.pos as u64, 0);
                s.count("fault:SourceReadError");
                true
            }
            _ => false,
        });
        if failed {
            // EIO mostly; a closed pipe / reset connection behind fd 0 otherwise
            let e = match simkit::draw(4) {
                0 => io::Error::new(io::ErrorKind::UnexpectedEof, "stdin: unexpected end of file"),
                1 => io::Error::from_raw_os_error(104),
                _ => io::Error::from_raw_os_error(5),
            };
            return Poll::Ready(Err(e));
        }
        simkit::with(|s| {
            let rem_buf = buf.remaining();
            let (avail, pos) = match s.stdin.as_ref() {
                Some(st) => (st.data.len() - st.pos, st.pos),
                None => (0, 0),
            };
            let avail = match s.stdin.as_ref().and_then(|st| st.fail_at) {
                Some(f) => avail.min(f.saturating_sub(pos)),
                None => avail,
            };
            let max = avail.min(rem_buf);
            if max == 0 {
                s.event("stdin-read", 0, 0);
                return;
            }
            // pipe-like: 1 byte, a page, 64 KiB, or everything that fits
            let n = match s.tape.draw(4) {
                0 => max,
                1 => max.min(65536),
                2 => max.min(4096),
                _ => 1 + s.tape.draw(max.min(4096) as u32) as usize,
            }
            .max(1)
            .min(max);
            let st = s.stdin.as_mut().unwrap();
            buf.put_slice(&st.data[pos..pos + n]);
            st.pos += n;
            s.event("stdin-read", n as u64, 0);
        });
        Poll::Ready(Ok(()))
    }
}
