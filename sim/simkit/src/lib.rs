//! simkit: the deterministic simulator core used by the facade crates and the worker.
//!
//! One run executes on one thread; all simulator state lives in a thread-local `Sim`.
//! There is no real clock, no real sleep, no thread pool: blocking tasks, timers and
//! network deliveries are events the scheduler picks from, driven by the run's tape.

pub mod exec;
pub mod net;
pub mod prng;
pub mod tape;
pub mod threads;

use std::cell::RefCell;
use std::collections::{BTreeMap, BinaryHeap};
use std::task::Waker;

pub use tape::Tape;

pub struct PoolTask {
    pub id: u64,
    pub mandatory: bool,
    pub label: &'static str,
    pub run: Box<dyn FnOnce() + Send>,
}

#[derive(Clone, Copy, Debug)]
pub struct SchedParams {
    /// 0..=100: probability that a pending blocking task is run at a yield point
    pub eager_pct: u32,
    /// pick pending tasks FIFO instead of by draw
    pub fifo: bool,
    /// run (true) or drop (false) non-mandatory tasks still pending at shutdown
    pub run_detached_at_shutdown: bool,
}

impl Default for SchedParams {
    fn default() -> Self {
        SchedParams { eager_pct: 100, fifo: true, run_detached_at_shutdown: true }
    }
}

pub struct TimerEntry {
    pub at: u64,
    pub seq: u64,
    pub waker: Waker,
}
impl PartialEq for TimerEntry {
    fn eq(&self, o: &Self) -> bool {
        self.at == o.at && self.seq == o.seq
    }
}
impl Eq for TimerEntry {}
impl PartialOrd for TimerEntry {
    fn partial_cmp(&self, o: &Self) -> Option<std::cmp::Ordering> {
        Some(self.cmp(o))
    }
}
impl Ord for TimerEntry {
    fn cmp(&self, o: &Self) -> std::cmp::Ordering {
        // reversed: BinaryHeap is a max-heap, we want the earliest first
        (o.at, o.seq).cmp(&(self.at, self.seq))
    }
}

pub struct Sim {
    pub tape: Tape,
    pub sched: SchedParams,
    pub steps: u64,
    pub step_budget: u64,
    pub pool: Vec<PoolTask>,
    pub next_task_id: u64,
    pub now_ns: u64,
    pub timers: BinaryHeap<TimerEntry>,
    pub timer_seq: u64,
    pub crashed: bool,
    pub trace_hash: u64,
    pub sched_hash: u64,
    pub record: bool,
    pub events: Vec<String>,
    pub counters: BTreeMap<&'static str, u64>,
    pub net: net::NetState,
    pub panic_site: Option<String>,
    pub stdin: Option<StdinScript>,
    pub tasks_spawned: u64,
    pub tasks_run: u64,
    /// yield points of the current command; exceeding the budget ends the command
    pub yields: u64,
    pub yield_budget: u64,
    pub budget_exceeded: bool,
    /// async tasks spawned with tokio::spawn (bita spawns none today)
    pub async_tasks: Vec<exec::AsyncTask>,
    pub next_async_id: u64,
    /// helper threads of this run without a closure / with a closure parked in a futex wait
    pub idle_helpers: Vec<std::sync::Arc<threads::Helper>>,
    pub blocked: Vec<std::sync::Arc<threads::Helper>>,
    /// the simulator thread itself waits on this futex address (woken?)
    pub scheduler_wait: Option<(usize, bool)>,
    /// closures still blocked when a command's runtime shut down (the real one would hang)
    pub shutdown_hung: u64,
    /// pool closures run on helper threads (true) or in place (false), see threads.rs
    pub threaded: bool,
}

/// scripted stdin: bytes and whether fd 0 is a terminal
pub struct StdinScript {
    pub data: Vec<u8>,
    pub pos: usize,
    pub is_tty: bool,
    /// reads fail with EIO once this many bytes have been delivered
    pub fail_at: Option<usize>,
}

/// steps (polls of the root future that return Pending) allowed per block_on; scenarios scale it
/// with the amount of work they ask for
pub static DEFAULT_STEP_BUDGET: std::sync::atomic::AtomicU64 = std::sync::atomic::AtomicU64::new(2_000_000);

impl Sim {
    pub fn new(tape: Tape) -> Self {
        Sim {
            tape,
            sched: SchedParams::default(),
            steps: 0,
            step_budget: DEFAULT_STEP_BUDGET.load(std::sync::atomic::Ordering::Relaxed),
            pool: Vec::new(),
            next_task_id: 0,
            now_ns: 0,
            timers: BinaryHeap::new(),
            timer_seq: 0,
            crashed: false,
            trace_hash: 0xcbf2_9ce4_8422_2325,
            sched_hash: 0xcbf2_9ce4_8422_2325,
            record: false,
            events: Vec::new(),
            counters: BTreeMap::new(),
            net: net::NetState::default(),
            panic_site: None,
            stdin: None,
            tasks_spawned: 0,
            tasks_run: 0,
            yields: 0,
            yield_budget: 20_000_000,
            budget_exceeded: false,
            async_tasks: Vec::new(),
            next_async_id: 0,
            idle_helpers: Vec::new(),
            blocked: Vec::new(),
            scheduler_wait: None,
            shutdown_hung: 0,
            threaded: false,
        }
    }
    #[inline]
    pub fn count(&mut self, key: &'static str) {
        *self.counters.entry(key).or_insert(0) += 1;
    }
    #[inline]
    pub fn count_n(&mut self, key: &'static str, n: u64) {
        *self.counters.entry(key).or_insert(0) += n;
    }
    #[inline]
    fn mix_into(h: &mut u64, kind: &str, a: u64, b: u64) {
        let mut x = *h;
        for &c in kind.as_bytes() {
            x ^= c as u64;
            x = x.wrapping_mul(0x0000_0100_0000_01B3);
        }
        for v in [a, b] {
            x ^= v;
            x = x.wrapping_mul(0x0000_0100_0000_01B3);
            x ^= x >> 29;
        }
        *h = x;
    }
    /// Record an event into the trace hash (and the event log when recording).
    #[inline]
    pub fn event(&mut self, kind: &str, a: u64, b: u64) {
        Self::mix_into(&mut self.trace_hash, kind, a, b);
        if self.record {
            self.events.push(format!("{} {} {}", kind, a, b));
        }
    }
    /// Record a scheduling decision (also part of the trace hash).
    #[inline]
    pub fn sched_event(&mut self, kind: &str, a: u64, b: u64) {
        Self::mix_into(&mut self.sched_hash, kind, a, b);
        self.event(kind, a, b);
    }
    pub fn event_s(&mut self, kind: &str, s: &str) {
        let mut h: u64 = 0xcbf2_9ce4_8422_2325;
        for &c in s.as_bytes() {
            h ^= c as u64;
            h = h.wrapping_mul(0x0000_0100_0000_01B3);
        }
        Self::mix_into(&mut self.trace_hash, kind, h, s.len() as u64);
        if self.record {
            self.events.push(format!("{} {}", kind, s));
        }
    }
}

thread_local! {
    static SIM: RefCell<Option<Sim>> = const { RefCell::new(None) };
}

pub fn install(sim: Sim) {
    SIM.with(|s| {
        let mut s = s.borrow_mut();
        assert!(s.is_none(), "simulator already installed on this thread");
        *s = Some(sim);
    });
}

pub fn uninstall() -> Sim {
    let mut sim = SIM.with(|s| s.borrow_mut().take().expect("simulator not installed"));
    threads::finish_run(&mut sim);
    sim
}

/// the cell holding this run's simulator: the thread's own, or on a pool helper the one of the
/// run it works for
#[inline]
pub(crate) fn sim_cell() -> *const RefCell<Option<Sim>> {
    let r = threads::REMOTE.try_with(|r| r.get()).unwrap_or(std::ptr::null());
    if !r.is_null() {
        return r;
    }
    SIM.try_with(|s| s as *const RefCell<Option<Sim>>).unwrap_or(std::ptr::null())
}

pub fn active() -> bool {
    let c = sim_cell();
    if c.is_null() {
        return false;
    }
    unsafe { (*c).try_borrow().map(|b| b.is_some()).unwrap_or(true) }
}

/// Access the simulator. Never call user code (closures of blocking tasks, wakers of
/// unknown origin that could re-enter) while inside.
#[inline]
pub fn with<R>(f: impl FnOnce(&mut Sim) -> R) -> R {
    let c = sim_cell();
    assert!(!c.is_null(), "simulator not installed on this thread");
    let mut b = unsafe { (*c).borrow_mut() };
    f(b.as_mut().expect("simulator not installed on this thread"))
}

/// Like `with`, but a no-op returning None when no simulator is installed or it is busy.
#[inline]
pub fn try_with<R>(f: impl FnOnce(&mut Sim) -> R) -> Option<R> {
    let c = sim_cell();
    if c.is_null() {
        return None;
    }
    match unsafe { (*c).try_borrow_mut() } {
        Ok(mut b) => b.as_mut().map(f),
        Err(_) => None,
    }
}

pub fn draw(bound: u32) -> u32 {
    with(|s| s.tape.draw(bound))
}
pub fn chance(num: u32, den: u32) -> bool {
    with(|s| s.tape.chance(num, den))
}
pub fn count(key: &'static str) {
    with(|s| s.count(key))
}
pub fn count_n(key: &'static str, n: u64) {
    with(|s| s.count_n(key, n))
}
pub fn now_ns() -> u64 {
    with(|s| s.now_ns)
}
