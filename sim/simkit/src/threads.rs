//! Blocking-pool closures run on real threads that are parked and released one at a time.
//!
//! tokio runs `spawn_blocking` closures on pool threads, concurrently with the async side. Most
//! closures never wait for anybody and could just as well be called in place, but one that
//! waits -- `std::sync::mpsc::Receiver::recv`, a `Condvar`, a contended `Mutex` -- needs somebody
//! else to run while it waits. So every closure gets a helper thread of its run, and a baton
//! decides who runs: exactly one of {simulator thread, helper threads} is ever runnable, the
//! others sit in a raw futex wait on their own gate. The baton moves
//!
//!   * from the scheduler to a helper when the scheduler starts or resumes a closure,
//!   * back when the closure returns, or when it would block in a futex wait. The worker
//!     interposes libc's `syscall()`; futex waits and wakes of participants are virtual: a
//!     waiting helper is parked on its gate and listed as blocked on the futex address, a wake
//!     marks it runnable, and the scheduler resumes it at a point drawn from the tape.
//!
//! Which thread runs is therefore a pure function of the tape; the kernel's scheduler has no
//! say.
//!
//! Two thread hand-overs per closure are expensive (several times the cost of a short run on a
//! loaded machine), and bita's own closures never wait for anybody. So a run starts in INLINE
//! mode: closures are called in place on the simulator thread, exactly as if a helper had run
//! them without ever blocking (the decisions, draws and traces of the two modes are identical
//! as long as no closure blocks). When an inline closure is about to block in a futex wait,
//! nobody else could ever run: the embedder is told (`set_need_threads_hook`), abandons that
//! thread and starts the same tape again in THREADED mode, where every closure gets a helper. Helper threads are created per run (thread-local state of std, such as the hasher keys
//! of `HashMap`, must not leak from one run into the next) and exit with it; a helper that is
//! still blocked when its run ends stays parked for ever (counted in `LEAKED`).

use std::cell::{Cell, RefCell, UnsafeCell};
use std::sync::atomic::{AtomicBool, AtomicU32, AtomicU64, AtomicUsize, Ordering::SeqCst};
use std::sync::{Arc, OnceLock};
use std::task::{Wake, Waker};

use crate::Sim;

pub const RUNNING: u32 = 1;
pub const BLOCKED: u32 = 2;
pub const DONE: u32 = 3;

const EAGAIN: i32 = 11;
const ETIMEDOUT: i32 = 110;

pub type Job = Box<dyn FnOnce() + Send>;

pub struct Helper {
    gate: AtomicU32,
    /// gate of whoever released this helper last
    back: AtomicUsize,
    job: UnsafeCell<Option<Job>>,
    exit: AtomicBool,
    pub state: AtomicU32,
    pub task_id: AtomicU64,
    pub wait_addr: AtomicUsize,
    pub wait_gen: AtomicU64,
    pub woken: AtomicBool,
    pub timed_out: AtomicBool,
    /// the run's simulator cell and the embedder's context (see `set_context_hooks`)
    sim: AtomicUsize,
    ctx: UnsafeCell<[usize; 4]>,
}

// the fields behind UnsafeCell are only touched by the holder of the baton
unsafe impl Sync for Helper {}
unsafe impl Send for Helper {}

impl Helper {
    pub fn runnable(&self) -> bool {
        self.woken.load(SeqCst) || self.timed_out.load(SeqCst)
    }
}

/// helpers that were still blocked when their run ended (process-wide)
pub static LEAKED: AtomicU64 = AtomicU64::new(0);
/// closures handed to helper threads (process-wide)
pub static HANDOFFS: AtomicU64 = AtomicU64::new(0);

thread_local! {
    /// the helper this thread is, null on every other thread
    static ME: Cell<*const Helper> = const { Cell::new(std::ptr::null()) };
    /// gate of a thread that is not a helper (the simulator thread)
    static OWN_GATE: AtomicU32 = const { AtomicU32::new(0) };
    /// on helper threads: the simulator cell of the run they belong to
    pub(crate) static REMOTE: Cell<*const RefCell<Option<Sim>>> = const { Cell::new(std::ptr::null()) };
}

thread_local! {
    /// > 0 while an inline closure runs on this thread
    static INLINE_DEPTH: Cell<u32> = const { Cell::new(0) };
}

static NEED_THREADS: OnceLock<fn()> = OnceLock::new();

/// `hook` is called on the simulator thread when an inline closure is about to block. It
/// must arrange for the run to be repeated in threaded mode; the calling thread never runs on.
pub fn set_need_threads_hook(hook: fn()) {
    let _ = NEED_THREADS.set(hook);
}

/// inline mode: call the closure in place
pub fn run_inline(job: Job) {
    struct Depth;
    impl Drop for Depth {
        fn drop(&mut self) {
            let _ = INLINE_DEPTH.try_with(|d| d.set(d.get().saturating_sub(1)));
        }
    }
    INLINE_DEPTH.with(|d| d.set(d.get() + 1));
    let _g = Depth;
    job();
}

type Capture = fn() -> [usize; 4];
type Install = fn([usize; 4]);
static CTX_HOOKS: OnceLock<(Capture, Install)> = OnceLock::new();

/// The embedder's per-run thread-local context (syscall state, log buffers): `capture` runs on
/// the thread that starts a closure, `install` on the helper before the closure.
pub fn set_context_hooks(capture: Capture, install: Install) {
    let _ = CTX_HOOKS.set((capture, install));
}

// ---------------------------------------------------------------------------------------
// raw futex: the gates must not go through the interposed `syscall`
// ---------------------------------------------------------------------------------------

#[cfg(all(target_arch = "x86_64", target_os = "linux"))]
#[inline]
pub unsafe fn raw_syscall6(n: i64, a1: i64, a2: i64, a3: i64, a4: i64, a5: i64, a6: i64) -> i64 {
    let ret: i64;
    std::arch::asm!(
        "syscall",
        inlateout("rax") n => ret,
        in("rdi") a1,
        in("rsi") a2,
        in("rdx") a3,
        in("r10") a4,
        in("r8") a5,
        in("r9") a6,
        lateout("rcx") _,
        lateout("r11") _,
        options(nostack)
    );
    ret
}

const SYS_FUTEX: i64 = 202;
const FUTEX_WAIT_PRIVATE: i64 = 128;
const FUTEX_WAKE_PRIVATE: i64 = 1 | 128;

fn gate_wait(g: &AtomicU32) {
    loop {
        if g.swap(0, SeqCst) == 1 {
            return;
        }
        unsafe {
            raw_syscall6(SYS_FUTEX, g as *const AtomicU32 as i64, FUTEX_WAIT_PRIVATE, 0, 0, 0, 0);
        }
    }
}

unsafe fn gate_open(g: *const AtomicU32) {
    (*g).store(1, SeqCst);
    raw_syscall6(SYS_FUTEX, g as i64, FUTEX_WAKE_PRIVATE, 1, 0, 0, 0);
}

fn my_gate() -> *const AtomicU32 {
    let me = ME.with(|m| m.get());
    if me.is_null() {
        OWN_GATE.with(|g| g as *const AtomicU32)
    } else {
        unsafe { &(*me).gate as *const AtomicU32 }
    }
}

/// true on a helper thread
pub fn on_helper() -> bool {
    ME.try_with(|m| !m.get().is_null()).unwrap_or(false)
}

// ---------------------------------------------------------------------------------------
// the scheduler's side
// ---------------------------------------------------------------------------------------

fn helper_main(h: Arc<Helper>) {
    ME.with(|m| m.set(Arc::as_ptr(&h)));
    loop {
        gate_wait(&h.gate);
        if h.exit.load(SeqCst) {
            break;
        }
        REMOTE.with(|r| r.set(h.sim.load(SeqCst) as *const RefCell<Option<Sim>>));
        if let Some((_, install)) = CTX_HOOKS.get() {
            install(unsafe { *h.ctx.get() });
        }
        let job = unsafe { (*h.job.get()).take() };
        if let Some(job) = job {
            job();
        }
        h.state.store(DONE, SeqCst);
        unsafe { gate_open(h.back.load(SeqCst) as *const AtomicU32) };
    }
    REMOTE.with(|r| r.set(std::ptr::null()));
    if let Some((_, install)) = CTX_HOOKS.get() {
        install([0; 4]);
    }
    ME.with(|m| m.set(std::ptr::null()));
}

fn acquire() -> Arc<Helper> {
    if let Some(h) = crate::with(|s| s.idle_helpers.pop()) {
        return h;
    }
    let h = Arc::new(Helper {
        gate: AtomicU32::new(0),
        back: AtomicUsize::new(0),
        job: UnsafeCell::new(None),
        exit: AtomicBool::new(false),
        state: AtomicU32::new(DONE),
        task_id: AtomicU64::new(0),
        wait_addr: AtomicUsize::new(0),
        wait_gen: AtomicU64::new(0),
        woken: AtomicBool::new(false),
        timed_out: AtomicBool::new(false),
        sim: AtomicUsize::new(crate::sim_cell() as usize),
        ctx: UnsafeCell::new([0; 4]),
    });
    let h2 = h.clone();
    std::thread::Builder::new().name("pool".into()).stack_size(8 << 20).spawn(move || helper_main(h2)).expect("spawn pool helper");
    crate::with(|s| s.count("sim:helper-threads"));
    h
}

/// hand the baton to `h` and wait until it comes back
fn release(h: &Arc<Helper>) {
    h.back.store(my_gate() as usize, SeqCst);
    h.state.store(RUNNING, SeqCst);
    unsafe { gate_open(&h.gate) };
    gate_wait(unsafe { &*my_gate() });
}

fn after_return(h: Arc<Helper>) {
    match h.state.load(SeqCst) {
        BLOCKED => crate::with(|s| {
            s.event("pool-block", h.task_id.load(SeqCst), 0);
            s.count("sim:closure-blocked");
            s.blocked.push(h);
        }),
        _ => crate::with(|s| s.idle_helpers.push(h)),
    }
}

/// Run `job` (pool task `task_id`) on a helper thread until it returns or blocks.
pub fn start(task_id: u64, job: Job) {
    let h = acquire();
    unsafe {
        *h.job.get() = Some(job);
        if let Some((capture, _)) = CTX_HOOKS.get() {
            *h.ctx.get() = capture();
        }
    }
    h.task_id.store(task_id, SeqCst);
    HANDOFFS.fetch_add(1, SeqCst);
    release(&h);
    after_return(h);
}

/// Let a blocked closure that was woken continue until it returns or blocks again.
pub fn resume(h: Arc<Helper>) {
    release(&h);
    after_return(h);
}

/// End of the run: idle helpers exit, blocked ones stay parked for ever.
pub fn finish_run(sim: &mut Sim) {
    for h in sim.idle_helpers.drain(..) {
        h.exit.store(true, SeqCst);
        unsafe { gate_open(&h.gate) };
    }
    let n = sim.blocked.len() as u64;
    if n > 0 {
        LEAKED.fetch_add(n, SeqCst);
        sim.blocked.clear();
    }
}

// ---------------------------------------------------------------------------------------
// virtual futex, called from the interposed `syscall`
// ---------------------------------------------------------------------------------------

struct TimeoutWake {
    h: Arc<Helper>,
    gen: u64,
}
impl Wake for TimeoutWake {
    fn wake(self: Arc<Self>) {
        if self.h.wait_gen.load(SeqCst) == self.gen && self.h.state.load(SeqCst) == BLOCKED {
            self.h.timed_out.store(true, SeqCst);
        }
    }
}

/// FUTEX_WAIT by the calling thread. None: not a simulated thread, do the real call.
/// Some(0): woken; Some(errno) otherwise.
pub fn futex_wait(addr: usize, val: u32, timeout_ns: Option<u64>) -> Option<i32> {
    let me = ME.try_with(|m| m.get()).ok()?;
    if me.is_null() {
        if INLINE_DEPTH.try_with(|d| d.get()).unwrap_or(0) > 0 && crate::active() {
            if unsafe { (*(addr as *const AtomicU32)).load(SeqCst) } != val {
                return Some(EAGAIN);
            }
            // an inline closure waits for somebody else: only possible with real threads
            if let Some(hook) = NEED_THREADS.get() {
                hook();
            }
            loop {
                std::thread::sleep(std::time::Duration::from_secs(3600));
            }
        }
        return scheduler_wait(addr, val);
    }
    let h = unsafe { &*me };
    if unsafe { (*(addr as *const AtomicU32)).load(SeqCst) } != val {
        return Some(EAGAIN);
    }
    let gen = h.wait_gen.fetch_add(1, SeqCst) + 1;
    h.wait_addr.store(addr, SeqCst);
    h.woken.store(false, SeqCst);
    h.timed_out.store(false, SeqCst);
    if let Some(ns) = timeout_ns {
        let arc = unsafe {
            Arc::increment_strong_count(me);
            Arc::from_raw(me)
        };
        crate::try_with(|s| {
            s.timer_seq += 1;
            let seq = s.timer_seq;
            let at = s.now_ns.saturating_add(ns);
            s.timers.push(crate::TimerEntry { at, seq, waker: Waker::from(Arc::new(TimeoutWake { h: arc, gen })) });
        });
    }
    h.state.store(BLOCKED, SeqCst);
    unsafe { gate_open(h.back.load(SeqCst) as *const AtomicU32) };
    gate_wait(&h.gate);
    // released again by the scheduler
    h.wait_addr.store(0, SeqCst);
    Some(if h.woken.load(SeqCst) { 0 } else { ETIMEDOUT })
}

/// FUTEX_WAKE: mark up to `n` simulated waiters on `addr` runnable; returns how many.
pub fn futex_wake(addr: usize, n: u32) -> u32 {
    crate::try_with(|s| {
        let mut c = 0;
        for h in s.blocked.iter() {
            if c >= n {
                break;
            }
            if h.wait_addr.load(SeqCst) == addr && !h.woken.load(SeqCst) {
                h.woken.store(true, SeqCst);
                c += 1;
            }
        }
        if c < n {
            if let Some((a, w)) = s.scheduler_wait.as_mut() {
                if *a == addr && !*w {
                    *w = true;
                    c += 1;
                }
            }
        }
        c
    })
    .unwrap_or(0)
}

/// The simulator thread itself would block (a lock held by a parked closure, say): run the
/// others until somebody wakes it.
fn scheduler_wait(addr: usize, val: u32) -> Option<i32> {
    let involved = crate::try_with(|s| !s.blocked.is_empty() && s.scheduler_wait.is_none())?;
    if !involved {
        return None;
    }
    if unsafe { (*(addr as *const AtomicU32)).load(SeqCst) } != val {
        return Some(EAGAIN);
    }
    crate::with(|s| {
        s.scheduler_wait = Some((addr, false));
        s.count("sim:scheduler-thread-blocked");
    });
    loop {
        let woken = crate::with(|s| s.scheduler_wait.map(|(_, w)| w).unwrap_or(true));
        if woken || unsafe { (*(addr as *const AtomicU32)).load(SeqCst) } != val {
            crate::with(|s| s.scheduler_wait = None);
            return Some(0);
        }
        match crate::exec::take_runnable(false) {
            Some(r) => crate::exec::run_runnable(r),
            None => {
                // everybody waits for everybody: a real deadlock of the program under test.
                // There is no way to unwind out of a futex wait; the run never ends and the
                // harness abandons it (per-run timeout).
                crate::with(|s| s.count("sim:deadlock-in-scheduler-thread"));
                loop {
                    std::thread::sleep(std::time::Duration::from_secs(3600));
                }
            }
        }
    }
}
