//! xoshiro256** seeded through splitmix64. The only source of randomness in the simulator.

#[derive(Clone, Debug)]
pub struct Rng {
    s: [u64; 4],
}

pub fn splitmix64(x: &mut u64) -> u64 {
    *x = x.wrapping_add(0x9E37_79B9_7F4A_7C15);
    let mut z = *x;
    z = (z ^ (z >> 30)).wrapping_mul(0xBF58_476D_1CE4_E5B9);
    z = (z ^ (z >> 27)).wrapping_mul(0x94D0_49BB_1331_11EB);
    z ^ (z >> 31)
}

/// Mix several integers into one seed.
pub fn mix(parts: &[u64]) -> u64 {
    let mut h: u64 = 0x243F_6A88_85A3_08D3;
    for &p in parts {
        let mut x = h ^ p;
        h = splitmix64(&mut x).rotate_left(17) ^ p.wrapping_mul(0x9E37_79B9_7F4A_7C15);
        let mut y = h;
        h = splitmix64(&mut y);
    }
    h
}

impl Rng {
    pub fn new(seed: u64) -> Self {
        let mut x = seed;
        let s = [
            splitmix64(&mut x),
            splitmix64(&mut x),
            splitmix64(&mut x),
            splitmix64(&mut x),
        ];
        Rng { s }
    }
    #[inline]
    pub fn next_u64(&mut self) -> u64 {
        let result = self.s[1].wrapping_mul(5).rotate_left(7).wrapping_mul(9);
        let t = self.s[1] << 17;
        self.s[2] ^= self.s[0];
        self.s[3] ^= self.s[1];
        self.s[1] ^= self.s[2];
        self.s[0] ^= self.s[3];
        self.s[2] ^= t;
        self.s[3] = self.s[3].rotate_left(45);
        result
    }
    #[inline]
    pub fn below(&mut self, n: u64) -> u64 {
        if n <= 1 {
            return 0;
        }
        // multiply-shift; bias is irrelevant here
        ((self.next_u64() as u128 * n as u128) >> 64) as u64
    }
    pub fn fill(&mut self, buf: &mut [u8]) {
        let mut chunks = buf.chunks_exact_mut(8);
        for c in &mut chunks {
            c.copy_from_slice(&self.next_u64().to_le_bytes());
        }
        let rem = chunks.into_remainder();
        if !rem.is_empty() {
            let v = self.next_u64().to_le_bytes();
            let n = rem.len();
            rem.copy_from_slice(&v[..n]);
        }
    }
}
