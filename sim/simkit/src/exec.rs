//! Single-threaded executor + scheduler: owns the blocking "pool", the timer heap and the
//! virtual clock. `block_on` is the moral equivalent of `Runtime::new().block_on`.

use std::future::Future;
use std::pin::{pin, Pin};
use std::sync::atomic::{AtomicBool, Ordering};
use std::sync::{Arc, Mutex};
use std::task::{Context, Poll, Wake, Waker};

use crate::{with, PoolTask};

struct FlagWaker(AtomicBool);
impl Wake for FlagWaker {
    fn wake(self: Arc<Self>) {
        self.0.store(true, Ordering::Relaxed);
    }
    fn wake_by_ref(self: &Arc<Self>) {
        self.0.store(true, Ordering::Relaxed);
    }
}

#[derive(Debug, Clone, PartialEq, Eq)]
pub enum End<T> {
    Done(T),
    /// the run used more scheduler steps than its budget: unbounded work
    StepBudget,
    /// nothing runnable, no timer, main future pending
    Deadlock,
    /// a simulated process death happened; user-space state was discarded
    Crashed,
}

/// result slot shared between a JoinHandle and its pool task
pub struct Slot<T> {
    pub value: Option<Result<T, String>>,
    pub waker: Option<Waker>,
    pub task_id: u64,
}

pub type SharedSlot<T> = Arc<Mutex<Slot<T>>>;

/// Queue a blocking closure. Depending on the run's eagerness it may run before this returns.
pub fn spawn_pool_task<T, F>(label: &'static str, mandatory: bool, f: F) -> SharedSlot<T>
where
    F: FnOnce() -> T + Send + 'static,
    T: Send + 'static,
{
    let slot: SharedSlot<T> = Arc::new(Mutex::new(Slot { value: None, waker: None, task_id: 0 }));
    let slot2 = slot.clone();
    let run = Box::new(move || {
        let r = std::panic::catch_unwind(std::panic::AssertUnwindSafe(f));
        let r = r.map_err(|p| {
            if let Some(s) = p.downcast_ref::<&str>() {
                s.to_string()
            } else if let Some(s) = p.downcast_ref::<String>() {
                s.clone()
            } else {
                "panic".to_string()
            }
        });
        let waker = {
            let mut g = slot2.lock().unwrap();
            g.value = Some(r);
            g.waker.take()
        };
        if let Some(w) = waker {
            w.wake();
        }
    });
    let id = with(|s| {
        let id = s.next_task_id;
        s.next_task_id += 1;
        s.tasks_spawned += 1;
        s.event("spawn", id, mandatory as u64);
        s.pool.push(PoolTask { id, mandatory, label, run });
        id
    });
    slot.lock().unwrap().task_id = id;
    yield_point();
    slot
}

/// what the scheduler can let run next on the pool
pub enum Runnable {
    /// a queued closure
    Start(PoolTask),
    /// a closure that blocked in a futex wait and has been woken since
    Resume(Arc<crate::threads::Helper>),
}

pub(crate) fn take_runnable(eager_only: bool) -> Option<Runnable> {
    with(|s| {
        if s.crashed {
            return None;
        }
        // (no blocked closure: exactly the decisions, and draws, of a pool of queued tasks)
        let res: Vec<usize> = if s.blocked.is_empty() { Vec::new() } else { s.blocked.iter().enumerate().filter(|(_, h)| h.runnable()).map(|(i, _)| i).collect() };
        let np = s.pool.len();
        let total = np + res.len();
        if total == 0 {
            return None;
        }
        if eager_only {
            let p = s.sched.eager_pct;
            if p == 0 {
                return None;
            }
            if p < 100 && s.tape.draw(100) >= p {
                return None;
            }
        }
        let idx = if s.sched.fifo || total == 1 { 0 } else { s.tape.draw(total as u32) as usize };
        if idx < np {
            let t = s.pool.remove(idx);
            s.tasks_run += 1;
            s.sched_event("run", t.id, idx as u64);
            Some(Runnable::Start(t))
        } else {
            let h = s.blocked.remove(res[idx - np]);
            s.sched_event("pool-resume", h.task_id.load(Ordering::SeqCst), idx as u64);
            Some(Runnable::Resume(h))
        }
    })
}

fn run_job(id: u64, job: crate::threads::Job) {
    if with(|s| s.threaded) {
        crate::threads::start(id, job)
    } else {
        crate::threads::run_inline(job)
    }
}

pub(crate) fn run_runnable(r: Runnable) {
    match r {
        Runnable::Start(t) => run_job(t.id, t.run),
        Runnable::Resume(h) => crate::threads::resume(h),
    }
}

fn runnable_blocked(s: &crate::Sim) -> usize {
    if s.blocked.is_empty() {
        0
    } else {
        s.blocked.iter().filter(|h| h.runnable()).count()
    }
}

/// A point where the real program would let other threads make progress: every facade call.
pub fn yield_point() {
    // a command that never returns Pending (an endless stream of ready items) must still end:
    // count yield points and unwind out of the facade call when the budget is exceeded
    let over = with(|s| {
        s.yields += 1;
        if s.yields > s.yield_budget && !s.budget_exceeded {
            s.budget_exceeded = true;
            true
        } else {
            false
        }
    });
    if over {
        panic!("simulator: yield budget exceeded (unbounded work)");
    }
    while let Some(r) = take_runnable(true) {
        run_runnable(r);
    }
}

/// Run one specific pending task now (used when a handle is awaited under the lazy schedule
/// and by the shutdown path). Returns false when it is not pending any more.
pub fn run_task_by_id(id: u64) -> bool {
    let t = with(|s| {
        if s.crashed {
            return None;
        }
        let idx = s.pool.iter().position(|t| t.id == id)?;
        let t = s.pool.remove(idx);
        s.tasks_run += 1;
        s.sched_event("runid", t.id, idx as u64);
        Some(t)
    });
    match t {
        Some(t) => {
            run_job(t.id, t.run);
            true
        }
        None => false,
    }
}

enum Progress {
    Ran,
    None,
}

fn progress_step() -> Progress {
    // candidates: pending pool tasks, earliest timer
    enum Pick {
        Task,
        Timer,
        Nothing,
    }
    let pick = with(|s| {
        let nt = s.pool.len() + runnable_blocked(s);
        let has_timer = !s.timers.is_empty();
        match (nt > 0, has_timer) {
            (false, false) => Pick::Nothing,
            (true, false) => Pick::Task,
            (false, true) => Pick::Timer,
            (true, true) => {
                // a pool thread normally finishes long before a timer; sometimes it does not
                if s.tape.draw(8) == 7 {
                    Pick::Timer
                } else {
                    Pick::Task
                }
            }
        }
    });
    match pick {
        Pick::Nothing => Progress::None,
        Pick::Task => {
            if let Some(r) = take_runnable(false) {
                run_runnable(r);
            }
            Progress::Ran
        }
        Pick::Timer => {
            let w = with(|s| {
                let e = s.timers.pop().unwrap();
                if e.at > s.now_ns {
                    s.now_ns = e.at;
                }
                s.sched_event("timer", e.at, e.seq);
                e.waker
            });
            w.wake();
            Progress::Ran
        }
    }
}

/// Drive `fut` to completion under the simulator.
pub fn block_on<F: Future>(fut: F) -> End<F::Output> {
    let flag = Arc::new(FlagWaker(AtomicBool::new(true)));
    let waker = Waker::from(flag.clone());
    let mut cx = Context::from_waker(&waker);
    let mut fut = pin!(fut);
    // the budget is per simulated process (one block_on), the counter in Sim is per run
    let mut local_steps: u64 = 0;
    with(|s| {
        s.yields = 0;
        s.budget_exceeded = false;
    });
    let end = loop {
        if with(|s| s.crashed) {
            break End::Crashed;
        }
        flag.0.store(false, Ordering::Relaxed);
        if let Poll::Ready(v) = fut.as_mut().poll(&mut cx) {
            break End::Done(v);
        }
        if with(|s| s.crashed) {
            break End::Crashed;
        }
        local_steps += 1;
        let over = with(|s| {
            s.steps += 1;
            local_steps > s.step_budget
        });
        if over {
            break End::StepBudget;
        }
        let ran_tasks = run_async_tasks();
        if flag.0.load(Ordering::Relaxed) {
            // self-woken: other threads may or may not get to run in between
            yield_point();
            continue;
        }
        if ran_tasks && with(|s| s.async_tasks.iter().any(|t| t.woken.0.load(Ordering::Relaxed))) {
            continue;
        }
        match progress_step() {
            Progress::Ran => {}
            Progress::None => break End::Deadlock,
        }
    };
    shutdown(matches!(end, End::Done(_)));
    // the main future finished but a pool thread can never finish: the process would hang in
    // the runtime's destructor
    let hung = with(|s| std::mem::take(&mut s.shutdown_hung));
    if hung > 0 && matches!(end, End::Done(_)) {
        return End::Deadlock;
    }
    end
}

/// Runtime shutdown: mandatory tasks (file writes) still run, nobody sees their results;
/// the others run or are dropped. After a crash or an aborted run everything is dropped.
fn shutdown(clean: bool) {
    loop {
        let t = with(|s| {
            if s.pool.is_empty() {
                return None;
            }
            let t = s.pool.remove(0);
            let run = clean && !s.crashed && (t.mandatory || s.sched.run_detached_at_shutdown);
            if run {
                s.tasks_run += 1;
                s.sched_event("shutdown-run", t.id, t.mandatory as u64);
            } else {
                s.event("shutdown-drop", t.id, t.mandatory as u64);
            }
            Some((t, run))
        });
        match t {
            None => break,
            Some((t, true)) => run_job(t.id, t.run),
            Some((t, false)) => drop(t),
        }
    }
    // closures that sit in a futex wait: the real runtime joins its running pool threads when
    // it is dropped, so those that have been woken (their channel was closed when the main
    // future's state was dropped, say) run on; one that nobody wakes would keep the process
    // from ever exiting
    if clean {
        loop {
            let h = with(|s| {
                if s.crashed {
                    return None;
                }
                let i = s.blocked.iter().position(|h| h.runnable())?;
                let h = s.blocked.remove(i);
                s.sched_event("shutdown-resume", h.task_id.load(Ordering::SeqCst), 0);
                Some(h)
            });
            match h {
                Some(h) => crate::threads::resume(h),
                None => break,
            }
        }
        with(|s| {
            if !s.crashed && !s.blocked.is_empty() {
                s.shutdown_hung += s.blocked.len() as u64;
                s.event("shutdown-hung", s.blocked.len() as u64, 0);
            }
        });
    }
    // whatever is still parked stays parked
    with(|s| {
        let n = s.blocked.len() as u64;
        if n > 0 {
            crate::threads::LEAKED.fetch_add(n, Ordering::SeqCst);
            s.blocked.clear();
        }
    });
    let tasks = with(|s| {
        s.timers.clear();
        std::mem::take(&mut s.async_tasks)
    });
    drop(tasks);
}

/// Register a timer; the waker is woken when virtual time reaches `at`.
pub fn register_timer(at: u64, waker: Waker) -> u64 {
    with(|s| {
        s.timer_seq += 1;
        let seq = s.timer_seq;
        s.timers.push(crate::TimerEntry { at, seq, waker });
        seq
    })
}

/// Drop whatever is still queued (after a panic or an aborted scenario).
pub fn abort_cleanup() {
    shutdown(false);
}

impl<T> End<T> {
    /// the kind of ending without the value (for messages)
    pub fn kind(&self) -> &'static str {
        match self {
            End::Done(_) => "Done",
            End::StepBudget => "StepBudget",
            End::Deadlock => "Deadlock",
            End::Crashed => "Crashed",
        }
    }
}

/// One timer registration per (object, deadline), always waking the most recent waker.
/// Without this every spurious poll of a waiting future would add one more heap entry.
#[derive(Default)]
pub struct TimerSlot {
    slot: Arc<Mutex<Option<Waker>>>,
    armed_for: Option<u64>,
}

struct SlotWaker(Arc<Mutex<Option<Waker>>>);
impl Wake for SlotWaker {
    fn wake(self: Arc<Self>) {
        let w = self.0.lock().unwrap().take();
        if let Some(w) = w {
            w.wake();
        }
    }
}

impl TimerSlot {
    pub fn new() -> Self {
        Self::default()
    }
    /// Arrange for the current task to be woken at virtual time `at`.
    pub fn arm(&mut self, at: u64, cx: &mut Context<'_>) {
        *self.slot.lock().unwrap() = Some(cx.waker().clone());
        if self.armed_for != Some(at) {
            self.armed_for = Some(at);
            register_timer(at, Waker::from(Arc::new(SlotWaker(self.slot.clone()))));
        }
    }
}

impl std::fmt::Debug for TimerSlot {
    fn fmt(&self, f: &mut std::fmt::Formatter<'_>) -> std::fmt::Result {
        write!(f, "TimerSlot({:?})", self.armed_for)
    }
}


/// An async task (tokio::spawn): polled by the executor whenever it has been woken, in a
/// drawn order relative to the other woken tasks. Dropped when the main future finishes, as
/// tokio drops tasks at runtime shutdown.
pub struct AsyncTask {
    pub id: u64,
    fut: Pin<Box<dyn Future<Output = ()>>>,
    woken: Arc<FlagWaker>,
}

/// Spawn an async task. Must be called on the simulator thread.
pub fn spawn_async(fut: Pin<Box<dyn Future<Output = ()>>>) -> u64 {
    with(|s| {
        let id = s.next_async_id;
        s.next_async_id += 1;
        s.event("spawn-async", id, 0);
        s.async_tasks.push(AsyncTask { id, fut, woken: Arc::new(FlagWaker(AtomicBool::new(true))) });
        id
    })
}

/// Poll woken async tasks until none is woken. Returns true if any task was polled.
fn run_async_tasks() -> bool {
    let mut any = false;
    loop {
        // take one woken task out (never poll while the Sim is borrowed)
        let task = with(|s| {
            let woken: Vec<usize> = s.async_tasks.iter().enumerate().filter(|(_, t)| t.woken.0.load(Ordering::Relaxed)).map(|(i, _)| i).collect();
            if woken.is_empty() || s.crashed {
                return None;
            }
            let k = if woken.len() == 1 || s.sched.fifo { 0 } else { s.tape.draw(woken.len() as u32) as usize };
            let t = s.async_tasks.remove(woken[k]);
            s.sched_event("poll-async", t.id, k as u64);
            Some(t)
        });
        let Some(mut t) = task else { break };
        any = true;
        t.woken.0.store(false, Ordering::Relaxed);
        let waker = Waker::from(t.woken.clone());
        let mut cx = Context::from_waker(&waker);
        let done = match std::panic::catch_unwind(std::panic::AssertUnwindSafe(|| t.fut.as_mut().poll(&mut cx))) {
            Ok(Poll::Ready(())) => true,
            Ok(Poll::Pending) => false,
            Err(_) => true, // the wrapper future stores the panic for the JoinHandle
        };
        if !done {
            with(|s| s.async_tasks.push(t));
        }
    }
    any
}
