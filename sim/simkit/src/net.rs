//! Simulated network: a request is answered by a handler the worker installs; the answer is
//! a complete plan (fragments with virtual delays, ending in EOF or an error) computed when
//! the request is sent. The facade `reqwest` delivers it over virtual time.

#[derive(Clone, Debug)]
pub struct ReqInfo {
    pub url: String,
    pub headers: Vec<(String, String)>,
    /// value of the Range header exactly as handed to the request builder
    pub range: Option<String>,
    pub timeout_ns: Option<u64>,
    pub time_ns: u64,
}

#[derive(Clone, Debug)]
pub enum BodyEnd {
    Eof,
    /// transport error after the fragments (connection reset, ...)
    Error(String),
    /// never ends (until a timeout, if any)
    Stall,
}

#[derive(Clone, Debug)]
pub struct ResponsePlan {
    /// Err = connection failed before any response
    pub connect: Result<(), String>,
    pub connect_delay_ns: u64,
    pub status: u16,
    /// (delay before this fragment, bytes)
    pub fragments: Vec<(u64, Vec<u8>)>,
    pub end: BodyEnd,
    pub end_delay_ns: u64,
    /// after the fragments: this many more fragments of this size, produced lazily (a server
    /// that keeps sending); (fragment size, count)
    pub tail: Option<(usize, u64)>,
    /// the Content-Length header of the response (None: chunked transfer encoding); a lying
    /// server announces something else than it sends
    pub content_length: Option<u64>,
}

impl ResponsePlan {
    pub fn refused(msg: &str) -> Self {
        ResponsePlan {
            connect: Err(msg.to_string()),
            connect_delay_ns: 0,
            status: 0,
            fragments: Vec::new(),
            end: BodyEnd::Eof,
            end_delay_ns: 0,
            tail: None,
            content_length: None,
        }
    }
}

pub type Handler = Box<dyn FnMut(&ReqInfo, &mut crate::Tape) -> ResponsePlan>;

#[derive(Default)]
pub struct NetState {
    pub handler: Option<Handler>,
    pub requests: Vec<ReqInfo>,
}

/// Called by the facade when a request is sent.
pub fn dispatch(mut req: ReqInfo) -> ResponsePlan {
    // take the handler out so that it can use the tape without aliasing the Sim borrow
    let mut h = crate::with(|s| {
        req.time_ns = s.now_ns;
        s.net.requests.push(req.clone());
        s.event_s("http-req", req.range.as_deref().unwrap_or("-"));
        s.net.handler.take()
    });
    let plan = match &mut h {
        Some(handler) => {
            // the handler draws from the tape: lend it out
            let mut tape = crate::with(|s| std::mem::replace(&mut s.tape, crate::Tape::replay(Vec::new())));
            let plan = handler(&req, &mut tape);
            crate::with(|s| s.tape = tape);
            plan
        }
        None => ResponsePlan::refused("no route to host (no simulated server)"),
    };
    crate::with(|s| {
        if s.net.handler.is_none() {
            s.net.handler = h;
        }
    });
    plan
}
