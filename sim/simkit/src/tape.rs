//! The tape: every random decision of a run, in order. Search mode draws from a PRNG and
//! records; replay mode reads recorded values (missing values read as 0 = simplest choice).

use crate::prng::Rng;

#[derive(Clone, Debug)]
pub struct Tape {
    rng: Option<Rng>,
    vals: Vec<u32>,
    pos: usize,
    /// number of draws that ran past the end of a replayed tape
    pub overrun: u64,
    /// debugging: (bound, value) of every draw
    pub log: Option<Vec<(u32, u32)>>,
}

impl Tape {
    pub fn search(seed: u64) -> Self {
        Tape { rng: Some(Rng::new(seed)), vals: Vec::new(), pos: 0, overrun: 0, log: None }
    }
    pub fn replay(vals: Vec<u32>) -> Self {
        Tape { rng: None, vals, pos: 0, overrun: 0, log: None }
    }
    pub fn is_replay(&self) -> bool {
        self.rng.is_none()
    }
    /// Uniform value in 0..bound (0 when bound <= 1, without consuming a slot).
    #[inline]
    pub fn draw(&mut self, bound: u32) -> u32 {
        if bound <= 1 {
            return 0;
        }
        let v = self.draw_inner(bound);
        if let Some(l) = self.log.as_mut() {
            l.push((bound, v));
        }
        v
    }
    #[inline]
    fn draw_inner(&mut self, bound: u32) -> u32 {
        match &mut self.rng {
            Some(rng) => {
                let v = rng.below(bound as u64) as u32;
                self.vals.push(v);
                self.pos += 1;
                v
            }
            None => {
                let v = if self.pos < self.vals.len() {
                    self.vals[self.pos]
                } else {
                    self.overrun += 1;
                    0
                };
                self.pos += 1;
                v % bound
            }
        }
    }
    /// true with probability num/den
    #[inline]
    pub fn chance(&mut self, num: u32, den: u32) -> bool {
        if num == 0 {
            return false;
        }
        if num >= den {
            return true;
        }
        // 0 => false: the simplest choice is "does not happen"
        self.draw(den) >= den - num
    }
    /// index into weights; index 0 is the simplest choice
    pub fn weighted(&mut self, weights: &[u32]) -> usize {
        let total: u32 = weights.iter().sum();
        let mut v = self.draw(total);
        for (i, &w) in weights.iter().enumerate() {
            if v < w {
                return i;
            }
            v -= w;
        }
        weights.len() - 1
    }
    /// value in lo..=hi
    pub fn range(&mut self, lo: u32, hi: u32) -> u32 {
        debug_assert!(lo <= hi);
        lo + self.draw(hi - lo + 1)
    }
    pub fn pick<'a, T>(&mut self, items: &'a [T]) -> &'a T {
        &items[self.draw(items.len() as u32) as usize]
    }
    /// 64 bits for seeding sub-PRNGs (bulk data); two slots.
    pub fn seed64(&mut self) -> u64 {
        let a = self.draw(u32::MAX) as u64;
        let b = self.draw(u32::MAX) as u64;
        (a << 32) | b
    }
    pub fn position(&self) -> usize {
        self.pos
    }
    /// Values consumed so far (search: recorded draws; replay: the prefix that was read).
    pub fn used(&self) -> Vec<u32> {
        match self.rng {
            Some(_) => self.vals.clone(),
            None => {
                let mut v: Vec<u32> = self.vals.iter().copied().take(self.pos).collect();
                while v.len() < self.pos.min(self.vals.len()) {
                    v.push(0);
                }
                v
            }
        }
    }
}
