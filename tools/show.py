#!/usr/bin/env python3
import json,sys
d=json.load(sys.stdin)
v=d.pop('violations'); s=d.pop('samples')
print({k:d[k] for k in ('runs','wall_s','nontrivial','violation_classes','known_hits','harness_errors','counters','steps','tasks_run','sim_time_s')})
for x in v:
    x.pop('tape',None); ev=x.pop('events',None)
    print(json.dumps(x)[:3000])
    if '-e' in sys.argv and ev: print('\n'.join(ev[:120]))
if '-s' in sys.argv: print(json.dumps(s,indent=1)[:3000])
