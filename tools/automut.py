#!/usr/bin/env python3
"""Mechanical mutation sample (classic operators), as a complement to the hand-written and the
agent-written changes of DESIGN.md section 12.

  tools/automut.py generate [--per-file N] [--jobs K]   candidates -> those that still compile and
                                                        pass the existing suite are kept as
                                                        mutants/auto/<id>.patch (+ index.json)
  tools/automut.py run [--shard=i/n]                    every kept mutant against the checks of the
                                                        properties its file belongs to
                                                        (mutants/auto/RESULTS.json)

Operators (one token per mutant, outside `mod tests`): relational boundary (< <= > >=), equality
negation, && <-> ||, +1 / -1 dropped, true <-> false, += <-> -=, and deletion of a statement that
is a bare call of flush / seek / set_len / truncate / remove / clear / insert / push / extend.
Scratch worktrees live under /tmp/bita-automut-* and are removed.
"""
import fcntl, json, os, random, re, subprocess, sys, time

HERE = os.path.dirname(os.path.abspath(__file__))
VERIF = os.path.dirname(HERE)
OUT = os.path.join(VERIF, "mutants", "auto")

# file -> properties whose mechanism lives there (the checks that are asked to notice)
FILES = {
    "bitar/src/chunker/streaming_chunker.rs": ["C09", "C12"],
    "bitar/src/chunker/rolling_hash.rs": ["C09", "C12"],
    "bitar/src/chunker/fixed_size.rs": ["C09", "C01"],
    "bitar/src/rolling_hash/buzhash.rs": ["C09"],
    "bitar/src/rolling_hash/rollsum.rs": ["C09"],
    "bitar/src/chunker/config.rs": ["C09", "C11", "C15"],
    "bitar/src/api/compress.rs": ["C01", "C11", "C12"],
    "src/compress_cmd.rs": ["C01", "C11", "C12", "C16"],
    "bitar/src/clone_output.rs": ["C03", "C13", "C05"],
    "bitar/src/chunk_index.rs": ["C03", "C13", "C06"],
    "bitar/src/chunk_location_map.rs": ["C03", "C13"],
    "bitar/src/archive_reader/http_reader.rs": ["C08", "C07", "C15"],
    "bitar/src/archive_reader/http_range_request.rs": ["C08", "C15"],
    "bitar/src/archive_reader/io_reader.rs": ["C08", "C17", "C15"],
    "bitar/src/archive.rs": ["C17", "C15", "C04", "C11"],
    "bitar/src/header.rs": ["C11", "C17"],
    "bitar/src/chunk.rs": ["C04", "C01"],
    "bitar/src/hashsum.rs": ["C04", "C06"],
    "bitar/src/compression.rs": ["C01", "C15", "C11"],
    "src/clone_cmd.rs": ["C14", "C02", "C06", "C16", "C04"],
}

OPS = [
    ("rel", re.compile(r" <= "), " < "), ("rel", re.compile(r" < "), " <= "),
    ("rel", re.compile(r" >= "), " > "), ("rel", re.compile(r" > "), " >= "),
    ("eq", re.compile(r" == "), " != "), ("eq", re.compile(r" != "), " == "),
    ("logic", re.compile(r" && "), " || "), ("logic", re.compile(r" \|\| "), " && "),
    ("off1", re.compile(r" \+ 1\b"), ""), ("off1", re.compile(r" - 1\b"), ""),
    ("bool", re.compile(r"\btrue\b"), "false"), ("bool", re.compile(r"\bfalse\b"), "true"),
    ("assign", re.compile(r" \+= "), " -= "), ("assign", re.compile(r" -= "), " += "),
]
DEL = re.compile(r"^\s*[A-Za-z_][A-Za-z0-9_\.]*\.(flush|seek|set_len|truncate|remove|clear|insert|push|extend|extend_from_slice|reserve)\(.*\)(\.await)?(\?)?;\s*$")


def candidates(path, text):
    out = []
    lines = text.split("\n")
    for i, line in enumerate(lines):
        if re.match(r"\s*(#\[cfg\(test\)\]|mod tests?\b)", line):
            break
        s = line.strip()
        if not s or s.startswith("//") or s.startswith("#[") or s.startswith("use ") or "=>" in s and "<" in s and "::<" in s:
            continue
        code = line.split("//")[0]
        for kind, rx, rep in OPS:
            for m in rx.finditer(code):
                # skip generics / arrows / shifts
                if kind == "rel" and (code[max(0, m.start() - 1)] in "<>-=" or code[m.end():m.end() + 1] in "<>="):
                    continue
                new = line[:m.start()] + rep + line[m.end():]
                out.append((i, kind, "%s -> %s" % (m.group(0).strip(), rep.strip() or "(dropped)"), new))
        if DEL.match(code):
            out.append((i, "del", "statement deleted", re.match(r"^\s*", line).group(0) + "// " + s))
    return out


def sh(cmd, cwd=None, timeout=None):
    return subprocess.run(cmd, cwd=cwd, capture_output=True, text=True, timeout=timeout, env=dict(os.environ, CARGO_NET_OFFLINE="true"))


def generate(per_file, jobs):
    os.makedirs(OUT, exist_ok=True)
    rnd = random.Random(20260926)
    todo = []
    idx_path = os.path.join(OUT, "index.json")
    old_index = json.load(open(idx_path)) if os.path.exists(idx_path) else {}
    done = {(v["file"], v["line"], v["operator"]) for v in old_index.values()}
    rest = "--rest" in sys.argv
    for f in FILES:
        text = open(os.path.join("/repo", f)).read()
        c = candidates(f, text)
        if rest:
            # second sample: every candidate site the first sample did not take
            c = [x for x in c if (f, x[0] + 1, x[1]) not in done]
        rnd.shuffle(c)
        # spread over kinds
        seen, pick = {}, []
        for x in c:
            if seen.get((x[0], x[1])):
                continue
            seen[(x[0], x[1])] = 1
            pick.append(x)
            if len(pick) >= per_file:
                break
        for x in pick:
            todo.append((f,) + x)
    print("%d candidates" % len(todo), flush=True)
    # workers: each its own worktree + target dir
    chunks = [todo[i::jobs] for i in range(jobs)]
    procs = []
    for w, ch in enumerate(chunks):
        spec = os.path.join("/tmp", "automut-%d.json" % w)
        json.dump(ch, open(spec, "w"))
        procs.append(subprocess.Popen([sys.executable, __file__, "_worker", str(w), spec]))
    for p in procs:
        p.wait()
    index = dict(old_index) if rest else {}
    for w in range(jobs):
        p = os.path.join("/tmp", "automut-%d.out.json" % w)
        if os.path.exists(p):
            index.update(json.load(open(p)))
    json.dump(index, open(os.path.join(OUT, "index.json"), "w"), indent=1, sort_keys=True)
    kept = [k for k, v in index.items() if v["status"] == "survives-suite"]
    print("candidates %d, do not compile %d, killed by the suite %d, kept %d" % (
        len(index), sum(v["status"] == "no-compile" for v in index.values()), sum(v["status"] == "killed-by-suite" for v in index.values()), len(kept)))


def worker(w, spec):
    todo = json.load(open(spec))
    wt = "/tmp/bita-automut-%d" % w
    sh(["git", "-C", "/repo", "worktree", "remove", "--force", wt])
    r = sh(["git", "-C", "/repo", "worktree", "add", "--detach", wt, "HEAD"])
    if r.returncode != 0:
        print(r.stderr)
        return
    res = {}
    try:
        sh(["cargo", "test", "--workspace", "--no-run", "--offline"], cwd=wt, timeout=1800)
        for n, (f, i, kind, what, new) in enumerate(todo):
            mid = ("%s-L%d-%s-r%d" if os.environ.get("AUTOMUT_REST") else "%s-L%d-%s-%d") % (re.sub(r"[^a-z0-9]+", "_", f.replace("bitar/src/", "b_").replace("src/", "s_").replace(".rs", "")), i + 1, kind, n)
            path = os.path.join(wt, f)
            orig = open(path).read()
            lines = orig.split("\n")
            old = lines[i]
            lines[i] = new
            open(path, "w").write("\n".join(lines))
            entry = {"file": f, "line": i + 1, "operator": kind, "change": what, "old": old.strip(), "new": new.strip(), "props": FILES[f]}
            try:
                b = sh(["cargo", "test", "--workspace", "--no-run", "--offline"], cwd=wt, timeout=900)
                if b.returncode != 0:
                    entry["status"] = "no-compile"
                else:
                    t = sh(["cargo", "test", "--workspace", "--no-fail-fast", "--offline"], cwd=wt, timeout=300)
                    if t.returncode != 0:
                        entry["status"] = "killed-by-suite"
                    else:
                        entry["status"] = "survives-suite"
                        d = sh(["git", "diff"], cwd=wt).stdout
                        open(os.path.join(OUT, mid + ".patch"), "w").write(d)
            except subprocess.TimeoutExpired:
                entry["status"] = "killed-by-suite"
                entry["note"] = "timeout"
            res[mid] = entry
            open(path, "w").write(orig)
            print("[%d] %s %s: %s" % (w, mid, what, entry["status"]), flush=True)
            json.dump(res, open("/tmp/automut-%d.out.json" % w, "w"))
    finally:
        sh(["git", "-C", "/repo", "worktree", "remove", "--force", wt])
        sh(["rm", "-rf", wt])


def run(shard):
    index = json.load(open(os.path.join(OUT, "index.json")))
    kept = sorted(k for k, v in index.items() if v["status"] == "survives-suite")
    env = dict(os.environ)
    if shard:
        i, n = [int(x) for x in shard.split("/")]
        kept = kept[i::n]
        env["MUTANT_BASE"] = "/tmp/bita-mut-a%d" % i
    res_path = os.path.join(OUT, "RESULTS.json")
    for k in kept:
        cur = json.load(open(res_path)) if os.path.exists(res_path) else {}
        if k in cur and "--redo" not in sys.argv:
            continue
        t0 = time.time()
        r = subprocess.run([sys.executable, os.path.join(HERE, "mutant.py"), os.path.join(OUT, k + ".patch")] + index[k]["props"], capture_output=True, text=True, env=env)
        try:
            out = json.loads(r.stdout.strip().splitlines()[-1])["results"]
        except Exception:
            out = {"error": (r.stdout + r.stderr)[-300:]}
        caught = [p for p in out if str(out[p]).startswith("CAUGHT")]
        print("%-60s %-28s caught by %s" % (k, index[k]["change"], ",".join(caught) or "-"), flush=True)
        with open(res_path + ".lock", "w") as lk:
            fcntl.flock(lk, fcntl.LOCK_EX)
            cur = json.load(open(res_path)) if os.path.exists(res_path) else {}
            cur[k] = {"results": out, "secs": round(time.time() - t0)}
            json.dump(cur, open(res_path, "w"), indent=1, sort_keys=True)


if __name__ == "__main__":
    a = sys.argv[1:]
    if a and a[0] == "_worker":
        worker(int(a[1]), a[2])
    elif a and a[0] == "generate":
        per = int(a[a.index("--per-file") + 1]) if "--per-file" in a else 6
        jobs = int(a[a.index("--jobs") + 1]) if "--jobs" in a else 4
        generate(per, jobs)
    elif a and a[0] == "run":
        shard = next((x.split("=")[1] for x in a if x.startswith("--shard=")), None)
        run(shard)
    else:
        print(__doc__)
