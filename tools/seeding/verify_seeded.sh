#!/bin/bash
# verify_seeded.sh <agent worktree> <A|B> [run command]
# Confirms in a scratch worktree of my own (/tmp/wt/verify): patch applies, the project's suite
# still passes with it, the demonstration fails with it and passes without it.
# Prints one JSON line at the end.
AG=$1; X=$2; RUNCMD=$3
V=/tmp/wt/verify
export CARGO_NET_OFFLINE=true RUST_BACKTRACE=0
if [ ! -d $V ]; then git -C /repo worktree add --detach $V HEAD >/dev/null 2>&1 || exit 3; fi
cd $V || exit 3
git checkout -q -- . ; git clean -fdq -e target -e SEEDED
rm -rf SEEDED; mkdir -p SEEDED; cp -r $AG/SEEDED/$X SEEDED/$X
[ -z "$RUNCMD" ] && RUNCMD=$(grep -v '^#' SEEDED/$X/demo/RUN.txt | sed '/^\s*$/d')
echo "RUN: $RUNCMD" >&2
if ! git apply --whitespace=nowarn SEEDED/$X/patch.diff; then echo '{"patch_applies": false}'; exit 1; fi
SUITE=$(cargo test --workspace --no-fail-fast --offline 2>&1 | grep -E '^test result' | awk '{p+=$4; f+=$6} END {print p" passed, "f" failed"}')
echo "suite: $SUITE" >&2
bash -c "$RUNCMD" > /tmp/wt/verify-with.log 2>&1; WITH=$?
git checkout -q -- . ; git clean -fdq -e target -e SEEDED
bash -c "$RUNCMD" > /tmp/wt/verify-without.log 2>&1; WITHOUT=$?
git checkout -q -- . ; git clean -fdq -e target -e SEEDED
echo "{\"patch_applies\": true, \"suite\": \"$SUITE\", \"demo_with_change_exit\": $WITH, \"demo_without_change_exit\": $WITHOUT, \"demo_command\": $(python3 -c 'import json,sys; print(json.dumps(sys.argv[1]))' "$RUNCMD")}"
