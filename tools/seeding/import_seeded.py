#!/usr/bin/env python3
"""import_seeded.py <verify log> ... : copies every confirmed change of wave S into /verif/seeded/."""
import json, os, re, shutil, subprocess, sys

TEXT = {
    "S03-A": ("C03", "archive.rs build_source_index(): each unique chunk added once with all its offsets -- and with cd.archive_size (the stored, possibly compressed size) where HEAD passed the source size; the only reader of that size is the in-place planner's overlap query",
              "in-place clone, chunks stored compressed, and a move whose dependency lies beyond the compressed length of the destination (everything shifts forward a few bytes after an insert near the front): a reusable chunk is overwritten before it is copied"),
    "S03-B": ("C03", "src/clone_cmd.rs: flush() before set_len becomes sync_all() (the mechanism of C05-A / S01-B, found a third time independently)",
              "a write fault on exactly the last write of an in-place clone, no --verify-output"),
    "S12-A": ("C12", "chunker/config.rs with_max_chunk_size_limit() + both writers: the chunker's maximum chunk size is clamped to 1 GiB / (2 x buffered chunks) while the header records the configured one",
              "buffered-chunks x max chunk size > 512 MiB and a boundary-free run longer than the clamped maximum: chunk boundaries become a function of --buffered-chunks"),
    "S12-B": ("C12", "api/compress.rs: the header is written with write_buf(&mut Cursor) -- a single poll_write -- instead of write_all",
              "a sink that takes less than the whole header in its first write (a tokio File beyond 2 MiB of header, a pipe under back-pressure): the rest of the header is dropped, Ok is returned"),
    "S04-A": ("C04", "archive.rs StreamUntilFirstError: a read-ahead poll after every chunk stashes what is ready in `ahead`; an error met by the read-ahead sets `end` and is dropped by the unchanged `if self.end { return None }`",
              "a reader error that is ready immediately after a good chunk: an HTTP body shorter than the requested range that still holds at least one complete chunk -> the stream ends silently, success with holes"),
    "S04-B": ("C04", "clone_cmd.rs counts damaged chunks and carries on, returns Err(DamagedChunks(n)); main.rs exits with n as status",
              "the number of chunks failing verification is a multiple of 256: exit status 0 with a wrong output"),
    "S06-A": ("C06", "chunk_index.rs strip_chunks_already_in_place(&mut self): a location already in place is dropped from the output index as well; reorder_ops() still assumes the output index lists every chunk of the output",
              "--seed-output, a chunk repeated in the source whose only old copies are already in place and one target offset still missing (prior H Y Q, source H X H): H is fetched although the scan found it"),
    "S06-B": ("C06", "http_reader.rs adjacent_reads/poll_read: a run continues over a hole of at most 512 bytes that is smaller than both neighbours; the hole bytes are discarded",
              "HTTP, an unwanted chunk stored in <= 512 bytes between two fetched chunks: its stored bytes are requested although it was found in a seed"),
    "S05-A": ("C05", "src/clone_cmd.rs: the scan of the output hashes with buffer_unordered() and reports the output size as the end of the last chunk that came out of the stream; the final set_len only happens when that size exceeds the source size",
              "an output longer than the source by less than its final short chunk (what a crash before set_len leaves), more than one chunk buffer, and the short last chunk finishing its hash before its large predecessor: the truncate is skipped, every re-run the same"),
    "S05-B": ("C05", "src/clone_cmd.rs: any error while a seed is fed (open, read -- or the shared feed_output's write error) is downgraded to a warning",
              "a write error that surfaces while a seed is being fed (feed() has removed the chunk from the index before writing): chunks go missing, exit 0"),
    "S05-C": ("C05", "src/clone_cmd.rs: the in-place log line gains a percentage used*100/scanned_size, and an output that does not exist yet is no longer scanned",
              "an existing EMPTY output with --seed-output (a fresh clone killed before its first write landed): divide by zero on every re-run"),
    "S16-A": ("C16", "src/clone_cmd.rs: a probe request with Range: bytes=0-0; on a plain 200 the whole archive is downloaded to $TMPDIR/bita-<pid>.cba, cloned from there and unlinked",
              "an HTTP server that ignores Range and answers 200 with the whole body; the side file is transient, only the history of system calls shows it"),
    "S16-B": ("C16", "src/clone_cmd.rs: an OUTPUT that names an existing directory becomes OUTPUT/<archive name less .cba>, the way cp SRC DIR does",
              "the output argument is an existing directory (directly or through a symbolic link); with -f / --seed-output an existing file of that name inside it is overwritten"),
    "S08-A": ("C08", "http_reader.rs ChunkReader::poll_read: the finished range request is polled to its end ('drain for keep-alive') before it is dropped; an error seen while draining is returned",
              "a transport error after the last requested byte has arrived but before the body formally ends: an extra Err item / a bogus request bytes=N-(N-1); the same cut one byte earlier is resumed correctly"),
    "S08-B": ("C08", "chunk_offset.rs gap_to() + http_reader.rs: ranges at most 512 bytes apart are fetched with one request and the filler dropped -- but only as much of it as is already buffered when the preceding chunk is emitted",
              "a list with two ascending entries 1..512 bytes apart AND a body fragment boundary inside the gap: the rest of the filler is taken for the start of the next chunk (shifted Ok items)"),
    "S14-A": ("C14", "archive.rs try_init: rebuild-order validation tracks the highest index and tests `> len` (off by one); clone_cmd.rs: build_source_index() moved into CloneOutput::new(...), i.e. behind the open of the output",
              "an archive with a valid header checksum whose rebuild order holds an entry equal to the number of descriptors, and an absent output: panic after the output was created (empty file left behind)"),
    "S14-B": ("C14", "src/clone_cmd.rs: a --verify-header mismatch is only a warning when --verify-output is given too",
              "--verify-header <wrong> together with --verify-output: the archive is not refused, the output is created / overwritten / re-ordered, exit 0"),
    "S13-A": ("C13", "src/clone_cmd.rs: the two chunk-and-hash pipelines merged into one helper with buffer_unordered() that drops the chunker's offsets; the --seed-output scan recomputes them as a running sum",
              "--seed-output, more than one hash in flight and an out-of-order completion of neighbouring hash tasks on the blocking pool: chunks enter the prior-output index with swapped offsets"),
    "S13-B": ("C13", "src/clone_cmd.rs: an Err from reorder_in_place is logged and the clone carries on with seeds and archive",
              "a write fault exactly between two destination writes of one multi-destination Copy: the chunk stays listed with all its offsets, is delivered again and the destination already written is written a second time"),
    "S01-A": ("C01", "clone_output.rs feed(): looks the chunk up with clone_index.offsets(hash) (exact-length key) instead of remove(hash) first; chunk.rs verify(): keeps the full 64-byte sum instead of truncating it",
              "any archive with a hash length below 64: feed() silently writes nothing, `bita clone` reports success with an output of the right size full of zeros"),
    "S01-B": ("C01", "src/clone_cmd.rs: the flush() after feeding becomes sync_all() ('durability'): the error of the write in flight is parked in last_write_err and nobody looks (the mechanism of C05-A, found again independently)",
              "ENOSPC / EIO on exactly the last write of the clone: exit 0 with a hole where the last chunk belongs"),
}


def main():
    head = subprocess.run(["git", "-C", "/repo", "rev-parse", "--short", "HEAD"], capture_output=True, text=True).stdout.strip()
    for log in sys.argv[1:]:
        cur = None
        for line in open(log):
            m = re.match(r"== (S\d\d) ([ABC])", line)
            if m:
                cur = (m.group(1), m.group(2))
                continue
            if line.startswith("{") and cur:
                r = json.loads(line)
                key = "%s-%s" % cur
                ok = r.get("patch_applies") and r.get("suite") == "92 passed, 0 failed" and r.get("demo_with_change_exit") not in (0, None) and r.get("demo_without_change_exit") == 0
                if not ok:
                    print(key, "NOT CONFIRMED", r)
                    continue
                if key not in TEXT:
                    print(key, "confirmed but no text yet")
                    continue
                src = "/tmp/wt/%s/SEEDED/%s" % cur
                dst = "/verif/seeded/%s" % key
                shutil.rmtree(dst, ignore_errors=True)
                shutil.copytree(src, dst, ignore=shutil.ignore_patterns("*.log", "target", "__pycache__"))
                prop, change, needs = TEXT[key]
                meta = {
                    "id": key, "property": prop,
                    "origin": "independent sub-agent (ninth wave) given only the text of the property, the list of all earlier known changes for it, the instruction to prefer two cooperating sites that each look fine alone / a particular interleaving of pool tasks / a fault at one particular point, and its own scratch worktree of /repo (nothing from /verif)",
                    "change": change, "needs_to_manifest": needs,
                    "confirmed_by_me": {
                        "worktree": "/tmp/wt/verify (scratch git worktree of /repo HEAD %s, removed afterwards)" % head,
                        "patch_applies": True,
                        "existing_suite_with_change": "cargo test --workspace --no-fail-fast --offline: " + r["suite"],
                        "demo_with_change_exit": r["demo_with_change_exit"],
                        "demo_without_change_exit": r["demo_without_change_exit"],
                        "demo_command": r["demo_command"] + "   (run from the worktree root with the change's directory at SEEDED/%s, by /tmp/wt/verify_seeded.sh)" % cur[1],
                    },
                }
                json.dump(meta, open(os.path.join(dst, "meta.json"), "w"), indent=1)
                print(key, "imported")


main()
