"""Self-tests of the simulator (invoked through ./check selftest-...)."""
import json, os, subprocess, sys, tempfile, shutil, time


def determinism(chk, args):
    """Every seed twice (three times), in different processes, at different worker counts; the
    per-run trace hashes (every scheduler decision, read, write, request, outcome) and verdict
    classes must agree. Any difference is a harness error (exit 2)."""
    props = None
    n = 4000
    if "--props" in args:
        props = args[args.index("--props") + 1].split(",")
    if "--seeds" in args:
        n = int(args[args.index("--seeds") + 1])
    tier = "quick"
    if "--tier" in args:
        tier = args[args.index("--tier") + 1]
    # the properties, and the simulator's own scenarios (hash order, async tasks, closures that block)
    props = props or [p for p in chk.PROPS if not chk.PROPS[p].get("not_applicable")] + ["XHASHORDER", "XSPAWN", "XBLOCK"]
    scratch = tempfile.mkdtemp(prefix="bitasim-det-")
    report = {}
    rc = 0
    try:
        for prop in props:
            maps = []
            t0 = time.time()
            for parts in (1, 3, 16):
                procs = []
                for w in range(parts):
                    cnt = len(range(w, n, parts))
                    f = os.path.join(scratch, "%s.%d.%d.trace" % (prop, parts, w))
                    cmd = [chk.BIN, "run", "--prop", prop, "--seed", "7", "--start", str(w), "--stride", str(parts), "--count", str(cnt),
                           "--tier", tier, "--trace-out", f, "--known", chk.KNOWN]
                    procs.append((f, subprocess.Popen(cmd, stdout=subprocess.DEVNULL, stderr=subprocess.DEVNULL, env=chk.env(), cwd=scratch)))
                m = {}
                for f, p in procs:
                    p.wait()
                    if p.returncode != 0:
                        print("HARNESS-ERROR: worker failed for", prop, file=sys.stderr)
                        rc = 2
                        continue
                    for line in open(f):
                        i, h, c = line.split(None, 2)
                        m[int(i)] = (h, c.strip())
                maps.append(m)
            bad = [i for i in sorted(maps[0]) if not (maps[0][i] == maps[1].get(i) == maps[2].get(i))]
            report[prop] = {"seeds": len(maps[0]), "executions": sum(len(m) for m in maps), "mismatches": len(bad), "first": bad[:5], "secs": round(time.time() - t0, 1)}
            print("%s: %d seeds x 3 partitions (1/3/16 processes): %d mismatches %s (%.0fs)" % (prop, len(maps[0]), len(bad), bad[:5], time.time() - t0), flush=True)
            if bad:
                rc = 2
    finally:
        shutil.rmtree(scratch, ignore_errors=True)
    out = os.path.join(chk.OUT, "evidence", "selftest-determinism.json")
    os.makedirs(os.path.dirname(out), exist_ok=True)
    json.dump({"seeds_per_property": n, "partitions": [1, 3, 16], "report": report}, open(out, "w"), indent=1)
    return rc


def fidelity(chk, args):
    """Differential test of the tokio::fs::File port against the real tokio 1.42.0 File."""
    n = "20000"
    if "--sequences" in args:
        n = args[args.index("--sequences") + 1]
    r = subprocess.run(["cargo", "build", "--release", "--offline", "-p", "fidelity"], cwd=chk.SIM, env=chk.env(), capture_output=True, text=True)
    if r.returncode != 0:
        print("HARNESS-ERROR: building the fidelity test failed\n" + r.stderr[-2000:], file=sys.stderr)
        return 2
    r = subprocess.run([os.path.join(chk.SIM, "target", "release", "fidelity"), n, "1"], capture_output=True, text=True)
    print(r.stdout.strip()[:3000])
    out = os.path.join(chk.OUT, "evidence", "selftest-fidelity.json")
    os.makedirs(os.path.dirname(out), exist_ok=True)
    try:
        json.dump(json.loads(r.stdout.strip().splitlines()[-1]), open(out, "w"), indent=1)
    except Exception:
        pass
    return 0 if r.returncode == 0 else 2
