#!/bin/bash
# Line coverage of /repo's sources under the simulation (reach, measured): builds a private copy
# of the simulator with -C instrument-coverage, runs the quick tier of every check with evidence
# and replays redirected, merges the profiles with the nightly toolchain's llvm-tools (same LLVM
# major as stable rustc) and writes coverage/REPORT.txt + coverage/UNCOVERED.txt.
# Scratch lives under /tmp/cov and is removed at the end.   tools/coverage.sh [--keep]
set -e
VERIF=$(cd "$(dirname "$0")/.." && pwd)
T=$(ls -d /root/.rustup/toolchains/nightly-x86_64-unknown-linux-gnu/lib/rustlib/*/bin | head -1)
rm -rf /tmp/cov; mkdir -p /tmp/cov
rsync -a --exclude target "$VERIF/sim/" /tmp/cov/sim/
cd "$VERIF"
for p in ${COV_PROPS:-C01 C02 C03 C04 C05 C06 C07 C08 C09 C11 C12 C13 C14 C15 C16 C17}; do
  RUSTFLAGS="-C instrument-coverage" LLVM_PROFILE_FILE=/tmp/cov/prof/$p-%p-%8m.profraw VERIF_SIM=/tmp/cov/sim VERIF_OUT=/tmp/cov/out VERIF_MAX_SECS=${VERIF_MAX_SECS:-400} ./check $p --tier quick 2>&1 | tail -1
done | tee /tmp/cov/log
$T/llvm-profdata merge -sparse /tmp/cov/prof/*.profraw -o /tmp/cov/all.profdata
FILES=$(find /repo/src /repo/bitar/src -name '*.rs' | sort)
{ echo "# line coverage of /repo sources over one quick-tier run of all 16 checks (repo $(git -C /repo rev-parse --short HEAD), verif $(git -C "$VERIF" rev-parse --short HEAD))"
  $T/llvm-cov report /tmp/cov/sim/target/release/bitasim -instr-profile=/tmp/cov/all.profdata $FILES | awk '{printf "%-50s %8s %8s %8s\n", $1, $8, $9, $10}'; } > "$VERIF/coverage/REPORT.txt"
{ for f in $FILES; do echo "=== ${f#/repo/}"; $T/llvm-cov show /tmp/cov/sim/target/release/bitasim -instr-profile=/tmp/cov/all.profdata $f 2>/dev/null | grep -E "^ +[0-9]+\| +0\|" || true; done; } > "$VERIF/coverage/UNCOVERED.txt"
cat "$VERIF/coverage/REPORT.txt"
[ "$1" = "--keep" ] || rm -rf /tmp/cov
