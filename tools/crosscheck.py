#!/usr/bin/env python3
"""Model vs implementation: fault-free CLI scenarios executed by the simulator are executed
again by the real `bita` binary built from the repository under test, on real files, with the
same arguments; archives and outputs must be byte-identical. Informational (the deciding step
is the simulation); reported as traces_validated_against_impl.

  tools/crosscheck.py [--runs N]   -> prints one JSON line {"validated": n, "mismatches": [...]}
"""
import json, os, shutil, subprocess, sys, tempfile
HERE = os.path.dirname(os.path.abspath(__file__))
VERIF = os.path.dirname(HERE)
SIM = os.environ.get("VERIF_SIM") or os.path.join(VERIF, "sim")
REPO = os.environ.get("VERIF_REPO", "/repo")
BIN = os.path.join(SIM, "target", "release", "bitasim")


def main():
    runs = 120
    a = sys.argv[1:]
    if "--runs" in a:
        runs = int(a[a.index("--runs") + 1])
    env = dict(os.environ, CARGO_NET_OFFLINE="true")
    tdir = os.path.join(SIM, "target", "realbita")
    r = subprocess.run(["cargo", "build", "--offline", "--manifest-path", os.path.join(REPO, "Cargo.toml"), "--target-dir", tdir,
                        "--features", "zstd-compression,lzma-compression"], capture_output=True, text=True, env=env)
    real = os.path.join(tdir, "debug", "bita")
    if r.returncode != 0 or not os.path.exists(real):
        print(json.dumps({"validated": 0, "error": "building the real binary failed: " + r.stderr[-300:]}))
        return 0
    dump = tempfile.mkdtemp(prefix="bitasim-cross-")
    work = tempfile.mkdtemp(prefix="bitasim-real-")
    mism = []
    n = 0
    try:
        subprocess.run([BIN, "run", "--prop", "XCROSS", "--seed", "11", "--count", str(runs)], env=dict(env, BITASIM_DUMPDIR=dump),
                       stdout=subprocess.DEVNULL, stderr=subprocess.DEVNULL, cwd=dump)
        for case in sorted(os.listdir(dump)):
            c = os.path.join(dump, case)
            if not os.path.isdir(c):
                continue
            args = json.load(open(os.path.join(c, "args.json")))
            w = os.path.join(work, case)
            os.makedirs(w)
            for f in os.listdir(c):
                if f.startswith(("src.bin", "seed", "meta")):
                    shutil.copy(os.path.join(c, f), w)
            r1 = subprocess.run([real] + args["compress"][1:], cwd=w, capture_output=True)
            r2 = subprocess.run([real] + args["clone"][1:], cwd=w, capture_output=True)
            ok = r1.returncode == 0 and r2.returncode == 0
            if ok:
                ok = open(os.path.join(w, "a.cba"), "rb").read() == open(os.path.join(c, "a.cba"), "rb").read()
                ok = ok and open(os.path.join(w, "out.bin"), "rb").read() == open(os.path.join(c, "out.bin"), "rb").read() == open(os.path.join(c, "src.bin"), "rb").read()
            n += 1
            if not ok:
                mism.append({"case": case, "compress_rc": r1.returncode, "clone_rc": r2.returncode, "args": args, "stderr": (r1.stderr + r2.stderr)[-300:].decode("utf8", "replace")})
            shutil.rmtree(w, ignore_errors=True)
    finally:
        shutil.rmtree(dump, ignore_errors=True)
        shutil.rmtree(work, ignore_errors=True)
    print(json.dumps({"validated": n - len(mism), "executed": n, "mismatches": mism[:5]}))
    return 0


if __name__ == "__main__":
    sys.exit(main())
