"""Per-property metadata shared by ./check, the MANIFEST generator and the evidence writer."""

COMPONENTS = {
    "real": ["bitar (all modules, unmodified source)", "bita CLI modules cli/clone_cmd/compress_cmd/info_cmd/diff_cmd/string_utils (unmodified source)",
             "clap", "futures-util (buffered/FuturesOrdered)", "prost", "blake2", "brotli", "brotli-decompressor", "zstd", "rust-lzma", "bytes",
             "tokio 1.42.0 io-util (AsyncRead/Write/Seek, *Ext, io::copy)", "kernel tmpfs behind the syscall seam"],
    "port": ["tokio::fs::File / OpenOptions state machine (port of tokio 1.42.0 src/fs/file.rs + io/blocking.rs Buf)"],
    "stub": ["tokio blocking pool, runtime, timers, stdin (simulator scheduler / virtual clock / scripted stdin)",
             "reqwest + hyper + TCP + web server (scripted fragment streams on the simulated network)",
             "src/main.rs (dispatch re-implemented in the harness)", "process crash (stop the world at a syscall, keep files)",
             "block devices (regular files presented as S_IFBLK at statx/fstat, ENOSPC past the end)"],
}

COMMON_ASSUMPTIONS = [
    "sampling: a clean batch is evidence, not proof",
    "a background file operation is atomic at syscall granularity; overlap inside one syscall is not modelled",
    "the shadow manifests copy the dependency lists of /repo's Cargo.toml files; a change to those alone is not seen",
]

PROPS = {}

def prop(pid, level, rule, tiers, assumptions=(), **kw):
    PROPS[pid] = dict(level=level, rule=rule, tiers=tiers, assumptions=list(assumptions) + COMMON_ASSUMPTIONS, **kw)

prop("C09", "exploration",
     "each run draws a chunker configuration (FixedSize / RollSum / BuzHash; window 1..256; min <w, =w, >w; filter bits 1..24; max up to >1 MiB in the thorough tier), "
     "a source (random, constant, periodic, block pool, zero runs, 2-3 symbol alphabet, text; lengths on the configuration's edges) and a read schedule "
     "(fragment sizes 1..n, Pending at any poll); the chunk list must equal the single-read chunk list, tile the input, respect min/max, and equal the "
     "reference chunker that hashes every trailing window from its closed form. Non-trivial: the input produced at least two chunks; distinct: by trace hash "
     "(every read, its size, every Pending) combined with the chunk count.",
     {"quick": {"runs": 64000, "max_secs": 120}, "thorough": {"runs": 1600000, "max_secs": 900}},
     ["the BuzHash table/seed and RollSum constants are part of the definition (copied into the reference; pinned by bitar/tests/chunking.rs)"])

prop("C01", "exploration",
     "each run draws (source, chunker configuration, compression, hash length, buffered-chunks, metadata), a writer (bita compress from a file / from stdin, bitar create_archive), "
     "a cloner (bita clone local / HTTP, library clone local / HTTP) and, per command, a schedule of the blocking pool (eagerness 0/10/50/90/100 %, FIFO or drawn order), "
     "read fragmentation at the syscall seam / SimSource / stdin / HTTP body. No faults. Oracle: every command succeeds; the independent decoder reads the archive, finds the true size and "
     "Blake2b-512 and unpacks it to the source; the clone output equals the source. Non-trivial: the source has at least two chunks; distinct: by trace hash (all scheduler decisions, reads, "
     "requests) combined with chunk count, writer and cloner.",
     {"quick": {"runs": 24000, "max_secs": 150}, "thorough": {"runs": 700000, "max_secs": 1200}},
     ["bitar's temporary_file_override is never used (it cannot work: DESIGN.md O1)", "the anonymous temp file of create_archive is opened by the tempfile crate through raw syscalls and is not seen by the seam"])

NOT_APPLICABLE = {
    "C10": "pure function of its input: quantifies over pairs of byte strings and configurations only; given C09 (same chunks under every read schedule) there is no schedule, clock, fault, crash or interleaving for a simulator to own. The mechanism it rests on (boundary decisions depend on the trailing window alone) is checked by C09's reference chunker, which is how F5 was found.",
}

TEXTS = {}
def text(pid, technique, level_text, level_note):
    TEXTS[pid] = dict(technique=technique, level_text=level_text, level_note=level_note)

text("C09", "deterministic simulation: seeded search over read schedules (fragmentation, Pending) of a simulated source, differential against a single-read run and a closed-form reference chunker",
     "Seeded exploration: tens of thousands (quick) to millions (thorough) of (configuration, input, read schedule) triples; every run checks schedule independence, tiling, size bounds and equality with an independent non-incremental definition of the boundary rule. Sampling, not proof; small windows/inputs are hit densely.",
     "Trusted: the reference chunker in /verif (closed-form RollSum/BuzHash window hashes, its own copy of the BuzHash table), blake2; real code: bitar chunker + futures-util; stub: the byte source (SimSource).")

text("C01", "deterministic simulation: seeded search over blocking-pool schedules and read fragmentations of the full compress -> clone pipeline (CLI and library, local and simulated HTTP), judged by an independent archive decoder",
     "Seeded exploration of end-to-end round trips under every completion order of hash/compress/write tasks the scheduler can produce (from an infinitely fast to an infinitely slow pool). Found F1 and F4 before they were fixed. Sampling, not proof.",
     "Trusted: RefFormat decoder (hand-written protobuf codec), blake2, brotli-decompressor, zstd, lzma; real: all of bitar and the CLI modules, futures-util, clap; port: tokio::fs::File; stub: blocking pool, stdin, reqwest/network.")
