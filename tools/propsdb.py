"""Per-property metadata shared by ./check, the MANIFEST generator and the evidence writer."""

COMPONENTS = {
    "real": ["bitar (all modules, unmodified source)", "bita CLI modules cli/clone_cmd/compress_cmd/info_cmd/diff_cmd/string_utils (unmodified source)",
             "src/main.rs main() and every other crate-root item, hosted: the exit status of the simulated process is what main() returns or exits with "
             "(three textual rewrites by tools/gen_shadow.py: std::env::args_os() -> the harness's argument vector, the `?` on init_log(..) dropped because the harness's logger is already installed, "
             "process::exit in main.rs -> an unwinding to the harness; if main.rs does not have that shape the harness dispatches the parsed command itself and counts main-not-hosted)",
             "clap", "futures-util (buffered/FuturesOrdered)", "prost", "blake2", "brotli", "brotli-decompressor", "zstd", "rust-lzma", "bytes",
             "tokio 1.42.0 io-util (AsyncRead/Write/Seek, *Ext, io::copy)", "kernel tmpfs behind the syscall seam"],
    "port": ["tokio::fs::File / OpenOptions state machine (port of tokio 1.42.0 src/fs/file.rs + io/blocking.rs Buf)"],
    "stub": ["tokio blocking pool, runtime, timers, stdin (simulator scheduler / virtual clock / scripted stdin; pool closures are called in place, and run on helper threads "
             "released one at a time -- virtual futex, virtual clock_gettime -- as soon as one of them has to wait for another thread)",
             "reqwest + hyper + TCP + web server (scripted fragment streams on the simulated network)",
             "tokio::runtime::Runtime / Builder (block_on = the simulator's executor); the logger that init_log() would install (an in-memory one is installed instead; init_log's body runs)", "process crash (stop the world at a syscall, keep files)",
             "block devices (regular files presented as S_IFBLK at statx/fstat, ENOSPC past the end)"],
}

COMMON_ASSUMPTIONS = [
    "sampling: a clean batch is evidence, not proof",
    "a background file operation is atomic at syscall granularity; overlap inside one syscall is not modelled",
    "the shadow manifests copy the dependency lists of /repo's Cargo.toml files; a change to those alone is not seen",
]

PROPS = {}

def prop(pid, level, rule, tiers, assumptions=(), **kw):
    PROPS[pid] = dict(level=level, rule=rule, tiers=tiers, assumptions=list(assumptions) + COMMON_ASSUMPTIONS, **kw)

prop("C09", "exploration",
     "each run draws a chunker configuration (FixedSize / RollSum / BuzHash; window 1..256; min <w, =w, >w; filter bits 1..24; max up to >1 MiB in the thorough tier), "
     "a source (random, constant, periodic, block pool, zero runs, 2-3 symbol alphabet, text; lengths on the configuration's edges) and a read schedule "
     "(fragment sizes 1..n, Pending at any poll); the chunk list must equal the single-read chunk list, tile the input, respect min/max, and equal the "
     "reference chunker that hashes every trailing window from its closed form. One run in three adds a source with hiccups: 1..3 reads at drawn positions fail with a transient error (EINTR, EAGAIN, timeout) and the source then goes on; a consumer that polls on after each error item must receive the same chunks, and the stream must not end before the input does. Non-trivial: the input produced at least two chunks; distinct: by trace hash "
     "(every read, its size, every Pending) combined with the chunk count.",
     {"quick": {"runs": 64000, "max_secs": 150}, "thorough": {"runs": 1600000, "max_secs": 900}},
     ["the BuzHash table/seed and RollSum constants are part of the definition (copied into the reference; pinned by bitar/tests/chunking.rs)"])

prop("C01", "exploration",
     "each run draws (source, chunker configuration, compression, hash length, buffered-chunks, metadata), a writer (bita compress from a file / from stdin, bitar create_archive), "
     "a cloner (bita clone local / HTTP, library clone local / HTTP) and, per command, a schedule of the blocking pool (eagerness 0/10/50/90/100 %, FIFO or drawn order), "
     "read fragmentation at the syscall seam / SimSource / stdin / HTTP body. One run in twelve is the fault-injecting configuration: a read of the source fails with EIO (drawn read call of the file, "
     "drawn byte count on stdin / the library reader) and compress must not report success; one in fourteen fails a write of compress (ENOSPC/EIO/EDQUOT on the temporary file or the archive, biased to the last write; a third of them the library writer into a tokio::fs::File, whose anonymous O_TMPFILE temp file the seam names <anon-temp>): success only with a complete archive. One file input in twelve is a block device (stat size 0). Otherwise no faults. Oracle: every command succeeds; the independent decoder reads the archive, finds the true size and "
     "Blake2b-512 and unpacks it to the source; the clone output equals the source. Non-trivial: the source has at least two chunks; distinct: by trace hash (all scheduler decisions, reads, "
     "requests) combined with chunk count, writer and cloner.",
     {"quick": {"runs": 12000, "max_secs": 150}, "thorough": {"runs": 700000, "max_secs": 1200}},
     ["bitar's temporary_file_override is never used (it cannot work: DESIGN.md O1)", "the anonymous temp file of create_archive (tempfile crate, O_TMPFILE on the temp directory) is seen by the seam as <anon-temp>; it lives in the real /tmp, outside the sandbox listing"])

FAM = ("a drawn archive (as C01) plus drawn seeds (0..3: edits of the source -- insert/delete/replace/move/duplicate/truncate/append/swap --, the source itself, empty, unrelated, "
       "chunk-permuted), seed files and/or stdin in drawn order, a drawn prior output (absent / existing file / faked block device >= source; related, permuted, unrelated, shorter, longer), "
       "--seed-output or not (a third of the in-place CLI runs also pass --force-create, which must change nothing), through bita clone (syscall seam) or the library flow of examples/local-cloner.rs (SimFile/SimSource), local or simulated HTTP (a quarter with a generous --http-timeout, a fifth with --http-header credentials that the server insists on for every request); a tenth of the seed files are block devices (stat size 0, content by reading), stdin seeds arrive with producer pauses (one read in 24 waits 1 ms .. 30 s of virtual time), under drawn pool schedules and read/body fragmentation; no faults. ")

prop("C02", "exploration",
     FAM + "Oracle: the clone succeeds and the output is byte-identical to the source (regular files also have the source's length). Truncated-hash collisions between different chunks (only possible for hash length < 8) are recognised and exempted. "
     "Non-trivial: at least one seed, at least two chunks, and the seeds supply some but not all chunks; distinct: trace hash + scenario shape.",
     {"quick": {"runs": 12000, "max_secs": 150}, "thorough": {"runs": 600000, "max_secs": 1200}},
     ["--verify-output is not combined with a block device larger than the source (it always reports a mismatch there: DESIGN.md O2)"])
prop("C03", "exploration",
     "two families, drawn 50/50. (a) " + FAM + "always with --seed-output / reorder_in_place on a prior output obtained by editing or permuting the source. "
     "(b) synthetic layouts at small scope driven into CloneOutput::reorder_in_place directly: 1..8 chunk identities with sizes from {1,2,3,5,8}; the source is a sequence of 0..10 identities, "
     "the prior output a sequence of 0..11 identities or garbage blobs (indexed or not), hash length in {4,8,16,33,64}; afterwards exactly the chunks the output still asks for are fed. "
     "Oracle: no panic/error; output == source (file length too for regular files); nothing left missing; a chunk present in the prior output and needed by the source is never left to be fetched. "
     "During the run (invariant monitor, props/preserve.rs): the ordered log of reads and writes on the output is replayed on a model of the file, and after every write each chunk that the scan found and the source still needs somewhere must survive -- an intact copy at one of its known locations, or read in full from an intact copy since the scan ended; (b) also calls the public planner (strip_chunks_already_in_place + reorder_ops) and executes its op list with a reference executor: bytes read from a place an earlier op overwrote must never be written anywhere, every destination must be one the source has, and afterwards every reusable identity is at all its destinations. "
     "Non-trivial: a non-empty prior output, at least one write and (b) at least one reusable identity; distinct: (a) trace hash + shape, (b) the layout itself.",
     {"quick": {"runs": 30000, "max_secs": 150}, "thorough": {"runs": 3000000, "max_secs": 1500}},
     ["the during-run monitor is lenient where bita is free: any read that covers an intact copy counts as buffering, and 'buffered' is never taken back; scans with more than 200 000 chunk locations are not monitored (counted)"],
     exhaustive_note="family (b) is sampled, biased small; the evidence counts distinct layouts reached")
prop("C06", "exploration",
     FAM + "Observed: every byte range requested from the archive (HTTP: the scripted server's log; local CLI: read(2) on the archive fd at the syscall seam; local library: reads of the archive SimFile). "
     "Oracle: the multiset of bytes read equals the header region once plus the stored range of every chunk that the reference chunker does not find in a seed or in the prior output (when it is the seed), each once; in particular no byte of an available chunk is read. "
     "Non-trivial: at least two chunks and a seed or in-place prior output; distinct: trace hash + shape.",
     {"quick": {"runs": 12000, "max_secs": 150}, "thorough": {"runs": 600000, "max_secs": 1200}})
prop("C13", "exploration",
     FAM + "Observed: every write to the output as (position, bytes) -- lseek/write on the output fd at the syscall seam, or the SimFile log; writes that continue where the previous one ended are coalesced. "
     "Oracle: every extent tiles exactly into source chunk locations and carries those chunks' bytes; no location is written twice; no location that the reference scan of the prior output found already holding the right chunk is written; nothing at or beyond the source length. "
     "Non-trivial: at least two chunks and a seed or in-place prior output; distinct: trace hash + shape (incl. number of writes).",
     {"quick": {"runs": 12000, "max_secs": 150}, "thorough": {"runs": 600000, "max_secs": 1200}})
prop("C11", "exploration",
     "C01's compress runs (CLI from file / stdin, library; all schedules; metadata maps incl. empty and binary values); one run in fourteen the input file grows while compress reads it (another process appends at a scheduled moment) and the archive is held against what was actually read; one metadata file in eight has a stat size of 0 although it delivers data (a /proc file, a device); on stdin, one read in 24 is preceded by a pause of the producer of 1 ms .. 30 s of virtual time. Oracle: the independent decoder checks magic, LE dictionary size, dictionary decodes, chunk-data offset == header length, "
     "Blake2b-512 trailer, file length == end of the last stored chunk, descriptors == the unique chunks of the reference chunker's chunk list in order of first occurrence (hash prefix, size), stored back-to-back from 0, stored size <= source size, "
     "every payload decodes (raw iff sizes equal) to a chunk with that hash, rebuild order == the chunk sequence, recorded size/checksum/parameters/hash length/compression/metadata == requested; bitar's Archive accessors and bita info --metadata-key report the same. "
     "Non-trivial: at least two chunks; distinct: trace hash + (chunks, unique chunks, metadata entries).",
     {"quick": {"runs": 12000, "max_secs": 150}, "thorough": {"runs": 700000, "max_secs": 1200}})
prop("C12", "exploration",
     "one (source, options) scenario is compressed 2..4 times by the CLI (file or stdin drawn each time) and 2..3 times by the library, each under an independently drawn pool schedule, buffered-chunks value in {1,2,3,8,64}, "
     "verbosity and input fragmentation; a third of the library runs write to a tokio::fs::File and are judged by what is at the path when create_archive returns; one CLI run in five finds a stale, longer temporary chunk file of a killed earlier run under the name the first run was seen to use; one scenario in 25 keeps a chunk of hundreds of KiB open at the end of the input; one scenario in eight starts the same CLI command twice at once (two simulated processes on one executor, the second 0..400 scheduling steps behind): at most one may succeed and what it leaves is the archive of an undisturbed run; one zstd scenario in three is preceded by a library compression at another level in the same process, and no chunk of the later archive may be stored as that earlier level would encode it. Oracle: all archives of a writer are byte-identical. Non-trivial: the source is longer than one average chunk; distinct: trace hash + archive size + run counts.",
     {"quick": {"runs": 2500, "max_secs": 150}, "thorough": {"runs": 200000, "max_secs": 1200}})

prop("C05", "fault_enumeration",
     "per run one clone scenario of the C02/C03 family through bita clone at the syscall seam (seeds, prior output, regular file or faked block device, local or HTTP). An uninterrupted execution counts W = write(2) calls on the output. "
     "Crash family (2/3 of runs): for EVERY k in 0..W (20 sampled values incl. 0 and W-1 when W > 20) the clone runs under a drawn pool schedule with process death at the k-th write, torn after a prefix drawn from {0, 1, mid, len-1, all}: "
     "user-space buffers and pending background writes are lost, the file as it is is the durable state; then 0..2 further crashed re-runs with --seed-output; then a fault-free, step-bounded bita clone --seed-output that must succeed and leave exactly the source. "
     "Error family (1/3): the k-th write fails with ENOSPC/EIO, nothing or a short prefix written, INCLUDING the last write, with and without --verify-output: the run must not exit 0 unless the output is complete; the re-run completes. Legal short writes and EINTR must change nothing; a failing final resize (ftruncate) must fail the run. Read-fault family (within the error family): one read of the output during the in-place scan or re-ordering fails with EIO (CLI; half of the faults aimed at the few reads of the re-ordering, two thirds of the runs with short reads so that the scan has a middle), or a drawn read of the simulated output fails / a short write is followed by EINTR (library flow): the run fails or the output is complete, never success with wrong bytes. "
     "Non-trivial: at least one fault fired and W >= 3; distinct: trace hash + (W, crash points, family, device, in-place).",
     {"quick": {"runs": 1200, "max_secs": 150}, "thorough": {"runs": 60000, "max_secs": 1500}},
     ["crash model: process death, not power loss -- what write(2) returned for survives, tokio's user-space buffer and not-yet-run background writes do not; bita never calls fsync and the property's quantifier is exactly 'k-th write not performed, fully performed or torn after any prefix'",
      "tear offsets are drawn from five classes per crash point rather than every byte"])
prop("C07", "exploration",
     "2/3 of runs: an archive (library writer) and a drawn subset of its descriptors as the ChunkIndex handed to Archive::chunk_stream over the simulated HTTP server -- uniform over all 2^n subsets for n <= 12 descriptors, density-driven (1/16 .. 16/16) above; "
     "1/3: subsets induced by drawn seeds / prior output through bita clone over HTTP. Body fragmentation and delays drawn, no failures. Oracle: the ordered list of Range header strings logged by the server equals 'bytes=0-13', the rest of the header, "
     "then exactly the maximal runs of stored-adjacent requested descriptors in descriptor order as 'bytes=<first>-<last>'. Non-trivial: at least two chunk-data requests and a proper subset; distinct: the subset pattern (or trace hash for clone runs).",
     {"quick": {"runs": 12000, "max_secs": 150}, "thorough": {"runs": 600000, "max_secs": 1200}})
prop("C08", "fault_enumeration",
     "a random content, a drawn list of 1..10 ranges (adjacent runs, gaps, unordered, repeated/overlapping; sizes 1 B .. 70 KB, up to 3 MiB in the thorough tier) read through read_chunks or read_at. "
     "Local: IoReader over a SimFile with drawn read fragmentation (1 byte .. whole), Pending at any poll (reads and seeks), early EOF at a drawn offset, one run in six a drawn read failing with EINTR / EAGAIN / EIO (the reader reports it or delivers right bytes, never wrong ones); a third of the readers have been used before (position anywhere), a sixth of the lists start at byte 0. HTTP: HttpReader (a quarter of the chunk-stream readers used before: an earlier stream over adjacent ranges polled for some items and dropped mid-response) against a server that is correct when it answers, with a failure script drawn per request "
     "(refused connection; body cut after c bytes with c drawn from {uniform, 0, all, all-1, first 8}; early EOF; stall + request timeout), retry budget 0..3, retry delay {0,1,30} s of virtual time. "
     "After a body-level error the stream is polled up to three more times: it must not deliver anything but further errors or the end. Oracle over the recorded history: items are a prefix of the requested ranges' bytes in order, then at most one error, then nothing; a run with f <= R failures completes, f > R or an early EOF yields an error; "
     "every (re)request's Range starts at the first byte not yet delivered and ends at the run's end; retry delays elapse in virtual time; the run finishes within the step budget. "
     "One run in fifty is a whole clone of the C02/C03 family (bita clone at the syscall seam or the library flow, seeds / in place) over HTTP against a server whose transient failures (refused connection, body cut after a drawn count) come in bursts of at most --http-retry-count (1..3), with --http-retry-delay in {0,1,10,3600} s: the clone must succeed with output == source, every write one source chunk at its offset and none twice, "
     "and the chunk-data requests in the server's log must be exactly: each expected run of adjacent missing chunks once, each re-request from the first byte the server had not delivered to the run's end, no earlier than the retry delay after the failed request. "
     "Non-trivial: a retry was taken or at least two ranges; distinct: trace hash + (ranges, failures, fatal, single).",
     {"quick": {"runs": 160000, "max_secs": 150}, "thorough": {"runs": 4000000, "max_secs": 1200}},
     ["cut offsets are drawn per request (biased to the edges), not enumerated for every byte", "zero-length ranges belong to C15, no conforming archive has them"])
prop("C14", "exploration",
     "the grid {output absent, regular file, block device >= source, block device < source} x {--force-create, --seed-output, neither} x {valid archive (with or without a matching --verify-header), random bytes, empty file, bit flip in the header, "
     "truncated header, --verify-header mismatch} x {local, HTTP} for clone, and {output absent, present} x {--force-create or not} for compress, is enumerated by a drawn cell index (148 cells; the evidence lists how often each refusal kind occurred); "
     "archive, prior content, schedules drawn; one clone in four has a --seed, which may be the existing output itself; one compress in five meets 1..2 transient failures (ETIMEDOUT / ESTALE / EINTR / EAGAIN) on its first opens of the output path; one HTTP clone in four meets a server that refuses the first --http-retry-count + 1..2 requests and answers afterwards (a clone that must proceed may then fail; a refusal stands). Oracle for the four refusals the statement names: exit status non-zero; the output's bytes and length unchanged; no write / ftruncate / O_TRUNC on it at the syscall seam; for archive / header refusals the output path was never opened "
     "(hence not created). Cells that must proceed must succeed with a correct output. Non-trivial: every run; distinct: trace hash + cell.",
     {"quick": {"runs": 12000, "max_secs": 150}, "thorough": {"runs": 400000, "max_secs": 1200}},
     ["header bit flips avoid the upper five bytes of the dictionary-size field (they make the reader attempt a petabyte allocation: C15's finding, fatal to a worker)"])
prop("C16", "exploration",
     "2/3 of runs: bita clone in all modes of the clone family (plain, seed files, stdin seed, in place, local, HTTP, +-verify-output, existing output with --force-create, faked block device) observed at the syscall seam: "
     "(one in eight with the existing output also named as a --seed, under its own or another spelling; one in ten with a second hard link on the existing output; one in sixteen into a directory that does not exist; init_log runs before each command, so a log sink that opens a file is seen too) every open with O_WRONLY/O_RDWR/O_CREAT/O_TRUNC/O_APPEND names the output path, no unlink/rename/mkdir, no truncate of another file, and the listing (names, sizes, Blake2) of the sandbox changed only at the output path. "
     "1/3: bita compress (file / stdin, +-force, output names with and without extension, in a subdirectory, with bytes that are not valid UTF-8; one in five repeated with --force-create over a planted stale temporary file or with an unlink of the temporary file failing with EPERM/EBUSY/EIO, one in three of the others simply run again with --force-create over their own result): only the archive and its '.tmp' sibling are opened for writing, only that temp file is removed, and a successful run leaves exactly one new file. "
     "Non-trivial: at least three file-system events; distinct: trace hash + shape.",
     {"quick": {"runs": 8000, "max_secs": 150}, "thorough": {"runs": 400000, "max_secs": 1200}},
     ["files opened through raw syscalls (none found: the CLI paths and the tempfile crate of bitar's library writer all go through libc) would not be seen by the link-time seam"])

prop("C04", "fault_enumeration",
     "fault kind: corruption of stored bytes after creation, and lying servers. Mode A (1/3 of runs): a small archive (source <= 400 B, hash length >= 8, library writer) and EVERY single-bit flip (except the upper five bytes of the dictionary-size field) and EVERY truncation length of it "
     "(exhaustive when the archive is <= 1400 B / 4096 B in the thorough tier, else 512 + 128 sampled), each cloned through the library. Mode B (2/3): one scenario of the clone family (CLI or library, seeds, in place, local or HTTP, +-verify-output) and one drawn corruption: "
     "bit flip (anywhere / header / payload), multi-byte overwrite, swap of two stored chunk payloads, trailing garbage, truncation, header re-encoded with one changed field and a recomputed checksum while --verify-header carries the original, "
     "a server answering one request with a flipped bit / an error page of the requested length / a short body, a server going silent mid-body with --http-timeout set, a server that serves the pinned archive for the first requests and another valid archive afterwards, a header re-encoded with one changed field and the file cut off inside the stored header checksum, the pinned checksum planted in (or removed from) the source-checksum field of a re-encoded header, --verify-header off by one bit, --verify-header right (control). "
     "One run in 25: an archive of exactly 255 / 256 / 257 / 512 (or 1, 7) distinct uncompressed chunks whose whole chunk-data section is damaged, cloned by `bita clone` through the repository's own main() (local or HTTP, fresh output or in place): counts on the edges of what an exit status can carry. "
     "Oracle: the clone does not exit 0, or the output equals the source; a change inside the header is never followed by success and (CLI) the output path is never opened; with --verify-header X success implies the real header checksum is X; "
     "StepBudget/Deadlock are violations, panics are counted and left to C15. Non-trivial: > 100 corruptions tried (A) / any corruption other than the control (B); distinct: trace hash + shape.",
     {"quick": {"runs": 3000, "max_secs": 150}, "thorough": {"runs": 200000, "max_secs": 1500}},
     ["hash length >= 8 (the property's quantifier)", "header tamper with a recomputed checksum is only judged together with --verify-header (without it the archive is a valid description of another source)"],
     exhaustive_note="mode A is exhaustive per sampled small archive (the evidence counts archives enumerated exhaustively and corruptions tried)")
prop("C17", "exploration",
     "archives are written by the independent encoder, never by bita: drawn source and chunker parameters (chunk list from the reference chunker, or 1/8 arbitrary cuts), current or legacy magic, chunk-data offset = header end + slack (0, 1..64, 1..5000), "
     "stored chunks ascending / descending / permuted with no / some / all gaps, trailing bytes, per-chunk raw or compressed with the brotli / zstd / lzma crates (never compressed with stored size == source size), unknown protobuf fields at every level, "
     "packed / split-packed / unpacked rebuild order, explicit default values, hash length 4..64, zero chunks, foreign version strings, metadata, recorded compression levels bita would never write (0, 12, 2^32-ish), RollSum windows larger than the maximum chunk size; one run in forty a header-only archive declaring a source of many GiB. Oracle: bitar opens it and every accessor (incl. compressed_size, header_checksum, iter_source_chunks, metadata_value, build_source_index offsets) reports the encoder's inputs; then the whole clone family "
     "(CLI / library, local / HTTP, seeds, in place, block device) must succeed with output == source; over HTTP the requests are the maximal adjacent runs for this layout. Non-trivial: at least two unique chunks; distinct: the encoding choices + chunk count.",
     {"quick": {"runs": 12000, "max_secs": 150}, "thorough": {"runs": 600000, "max_secs": 1200}},
     ["'conforming' = what header.rs' table and chunk_dictionary.proto (incl. its comments: descriptors in order of first occurrence) document; descriptor order is therefore not permuted, storage order is"])

prop("C15", "exploration",
     "inputs: random byte strings (with and without a valid magic), prefixes of valid archives, single-bit flips anywhere (biased to the dictionary-size field), and -- the only way past the header check -- headers re-encoded by the independent encoder with a VALID checksum and 1..3 mutated fields: "
     "chunk-data offset (0, 1, 14, 2^40, 2^63, 2^64-1), rebuild indexes out of range / empty rebuild order, stored size / source size (0, 1, 70000, 16 MiB cap), stored offset (2^20 .. 2^64-1), checksum lengths 0/1/3/63/65/200, window 0/1/70000/2^31/2^32-1, min > max, max 0, fixed size 0, "
     "filter bits 0/31/32/33/255/2^32-1, hash length 0/1/65/1000/2^32-1, enum values out of range, missing sub-messages, source size 0/1/2^40/2^62, compression bombs (a few hundred bytes inflating to 5/100/200 MiB), damaged dictionary bytes under a consistent size and checksum, duplicate descriptors, odd version strings; "
     "misbehaving servers (extra bytes: 1..100 B, 1 MiB, 100 MiB produced lazily; error page; empty body; Range ignored), on one request or all. Each input is inspected (bita info) and cloned plain, with a seed (the chunker runs on the attacker's parameters) and in place, locally and over HTTP, under drawn schedules. "
     "Oracle: every command ends in Success or a reported error; a panic (the worker is built with overflow checks), a dead worker (attributed to the run it had announced), an exhausted step / yield budget (unbounded work) or a single allocation above 64 MiB + 4 x the largest chunk or window size the header declares is a violation. "
     "Non-trivial: every run; distinct: the input kind + mutated fields + length.",
     {"quick": {"runs": 12000, "max_secs": 150}, "thorough": {"runs": 600000, "max_secs": 1500}},
     ["declared chunk sizes are capped at 16 MiB by the generator so that what the format legitimately lets a reader allocate fits the sandbox",
      "allocations of 32 MiB and more are served by mmap(MAP_NORESERVE) in the worker so that a huge untouched reservation does not kill it; allocation failure itself cannot be injected (Rust aborts)",
      "arithmetic overflow on attacker data is counted as a defect in any profile: it is a panic here and silent wrap-around in release builds"])

NOT_APPLICABLE = {
    "C10": "pure function of its input: quantifies over pairs of byte strings and configurations only; given C09 (same chunks under every read schedule) there is no schedule, clock, fault, crash or interleaving for a simulator to own. The mechanism it rests on (boundary decisions depend on the trailing window alone) is checked by C09's reference chunker, which is how F5 was found.",
}

TEXTS = {}
def text(pid, technique, level_text, level_note):
    TEXTS[pid] = dict(technique=technique, level_text=level_text, level_note=level_note)

text("C09", "deterministic simulation: seeded search over read schedules (fragmentation, Pending) of a simulated source, differential against a single-read run and a closed-form reference chunker",
     "Seeded exploration: tens of thousands (quick) to millions (thorough) of (configuration, input, read schedule) triples; every run checks schedule independence, tiling, size bounds and equality with an independent non-incremental definition of the boundary rule. Sampling, not proof; small windows/inputs are hit densely.",
     "Trusted: the reference chunker in /verif (closed-form RollSum/BuzHash window hashes, its own copy of the BuzHash table), blake2; real code: bitar chunker + futures-util; stub: the byte source (SimSource).")

text("C01", "deterministic simulation: seeded search over blocking-pool schedules and read fragmentations of the full compress -> clone pipeline (CLI and library, local and simulated HTTP), judged by an independent archive decoder",
     "Seeded exploration of end-to-end round trips under every completion order of hash/compress/write tasks the scheduler can produce (from an infinitely fast to an infinitely slow pool). Found F1 and F4 before they were fixed. Sampling, not proof.",
     "Trusted: RefFormat decoder (hand-written protobuf codec), blake2, brotli-decompressor, zstd, lzma; real: all of bitar and the CLI modules, futures-util, clap; port: tokio::fs::File; stub: blocking pool, stdin, reqwest/network.")

CLONE_NOTE = "Trusted: RefFormat decoder, reference chunker (scan of seeds / prior output), blake2; real: bitar + CLI modules + futures-util + clap; port: tokio::fs::File; stub: blocking pool, stdin, network, block device (regular file presented as S_IFBLK)."
text("C02", "deterministic simulation: seeded search over seed sets, seed orders, pool schedules and read fragmentations of clone (CLI at the syscall seam, library on simulated files)",
     "Seeded exploration; every successful clone must equal the source. Sampling, not proof.", CLONE_NOTE)
text("C03", "deterministic simulation: seeded search over prior output contents -- real chunking of edited files through --seed-output, and small-scope synthetic layouts driven into reorder_in_place on a simulated file with drawn read/write fragmentation; an invariant monitor replays every read and write of the output (no reusable chunk destroyed before it is copied or buffered), and the public planner's op lists are run by a reference executor",
     "Seeded exploration, dense at small scope (<= 8 identities, sizes {1,2,3,5,8}); found F2 before it was fixed. Sampling, not proof; the evidence counts distinct layouts.", CLONE_NOTE)
text("C06", "deterministic simulation: observation of every archive read at the simulated server / syscall seam / simulated file, compared with a reference clone model",
     "Seeded exploration with an exact multiset oracle over archive bytes; found F3 (block devices re-download everything) before it was fixed. Sampling, not proof.", CLONE_NOTE)
text("C13", "deterministic simulation: observation of every output write at the syscall seam / simulated file, compared with a reference clone model",
     "Seeded exploration with an exact oracle over (position, bytes) of every write; found F3's rewrite of in-place chunks on block devices. Sampling, not proof.", CLONE_NOTE)
text("C11", "deterministic simulation: archives written under seeded pool schedules judged by an independent decoder and reference chunker",
     "Seeded exploration; the decoder is written from header.rs' table and the .proto, so a consistent change of writer and reader is still caught. Sampling, not proof.",
     "Trusted: RefFormat (hand-written protobuf codec), reference chunker, blake2, brotli-decompressor, zstd, lzma; real: bitar writer, CLI writer, bitar reader (accessors), info_cmd; stub: blocking pool, stdin.")
text("C12", "deterministic simulation: the same compression repeated under independently seeded schedules, buffering levels and input deliveries; byte comparison",
     "Seeded exploration over schedules: from an infinitely fast to an infinitely slow blocking pool, FIFO or drawn completion order. Found F4 (schedule-dependent truncated archive) before it was fixed. Sampling, not proof.",
     "Real: both writers, futures-util buffered(); port: tokio::fs::File; stub: blocking pool, stdin; the library's anonymous temp file is a real unnamed file in /tmp, seen by the seam as <anon-temp>.")

text("C05", "deterministic simulation with fault injection at the syscall seam: enumeration of crash points (k-th output write, torn prefix, lost write-behind state) and write errors, followed by bounded-liveness re-runs in place",
     "Fault enumeration per scenario (every write index for W <= 20, 20 sampled otherwise; five tear classes) times seeded exploration over scenarios and schedules. Found F6 (exit 0 after the last write failed) before it was fixed. Not exhaustive over tear bytes.", CLONE_NOTE)
text("C07", "deterministic simulation: the Range headers that reach the scripted server, for drawn descriptor subsets, compared with the maximal-adjacent-run model",
     "Seeded exploration; uniform over all subsets for archives of <= 12 chunks. Sampling, not proof.",
     "Trusted: RefFormat decoder, the run model (20 lines); real: bitar HttpReader/ChunkReader/HttpRangeRequest, Archive::chunk_stream; stub: reqwest + server.")
text("C08", "deterministic simulation with network fault injection: scripted connection failures, body cuts, early EOF, stalls and timeouts under a virtual clock; history check of delivered items and re-request ranges",
     "Fault sequences drawn per request with retry budgets 0..3, over random range lists; 1.6e5 (quick) to 4e6 (thorough) histories. Sampling of cut offsets, not every byte.",
     "Real: bitar IoReader/IoChunkReader, HttpReader/ChunkReader/HttpRangeRequest incl. its retry state machine and tokio::time::sleep calls; stub: reqwest, server, clock, file (SimFile).")
text("C14", "deterministic simulation: the refusal grid executed as simulated processes, observed at the syscall seam (opens, writes, truncates) and by before/after content",
     "The 148-cell grid is covered many times per run of the check with drawn contents and schedules. Sampling of contents, complete over cells (reported).", CLONE_NOTE)
text("C16", "deterministic simulation: every open/unlink/rename/mkdir/truncate of the simulated process recorded at the link-time syscall seam, plus sandbox listings before and after",
     "Seeded exploration over all clone modes and compress configurations. Sampling, not proof.", CLONE_NOTE)

text("C04", "deterministic simulation with fault injection on stored bytes and server responses: per-archive enumeration of every bit flip and truncation, plus seeded single corruptions across the clone scenario family",
     "Fault enumeration (exhaustive per small archive: ~2e6 corrupted clones in the quick tier) combined with seeded exploration across archives, options and transports. Every corruption must be detected or harmless.", CLONE_NOTE)
text("C17", "deterministic simulation: archives from an independent encoder cloned through the simulated CLI / library / HTTP paths under read and body fragmentation",
     "Seeded exploration over everything the documented format leaves open; gaps, slack and descending order force the seek / new-request paths of both readers. Sampling, not proof.",
     "Trusted: the encoder (hand-written protobuf codec, brotli/zstd/lzma crates, blake2), reference chunker; real: bitar reader, CLI clone; port: tokio::fs::File; stub: pool, network.")

text("C15", "deterministic simulation with structure-aware fault injection on stored headers (valid checksum, mutated fields) and on server responses; outcome classification incl. panic site, step/yield budget and largest single allocation",
     "Seeded exploration over ~25 mutation kinds x commands x transports. Found and led to fixes of ten distinct crash / hang / unbounded-allocation defects (F7a-F7h). Sampling, not proof.",
     "Trusted: the independent encoder; real: bitar reader, chunker, decompressors, CLI; stub: network, pool; the allocator wrapper records large requests.")
