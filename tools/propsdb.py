"""Per-property metadata shared by ./check, the MANIFEST generator and the evidence writer."""

COMPONENTS = {
    "real": ["bitar (all modules, unmodified source)", "bita CLI modules cli/clone_cmd/compress_cmd/info_cmd/diff_cmd/string_utils (unmodified source)",
             "clap", "futures-util (buffered/FuturesOrdered)", "prost", "blake2", "brotli", "brotli-decompressor", "zstd", "rust-lzma", "bytes",
             "tokio 1.42.0 io-util (AsyncRead/Write/Seek, *Ext, io::copy)", "kernel tmpfs behind the syscall seam"],
    "port": ["tokio::fs::File / OpenOptions state machine (port of tokio 1.42.0 src/fs/file.rs + io/blocking.rs Buf)"],
    "stub": ["tokio blocking pool, runtime, timers, stdin (simulator scheduler / virtual clock / scripted stdin)",
             "reqwest + hyper + TCP + web server (scripted fragment streams on the simulated network)",
             "src/main.rs (dispatch re-implemented in the harness)", "process crash (stop the world at a syscall, keep files)",
             "block devices (regular files presented as S_IFBLK at statx/fstat, ENOSPC past the end)"],
}

COMMON_ASSUMPTIONS = [
    "sampling: a clean batch is evidence, not proof",
    "a background file operation is atomic at syscall granularity; overlap inside one syscall is not modelled",
    "the shadow manifests copy the dependency lists of /repo's Cargo.toml files; a change to those alone is not seen",
]

PROPS = {}

def prop(pid, level, rule, tiers, assumptions=(), **kw):
    PROPS[pid] = dict(level=level, rule=rule, tiers=tiers, assumptions=list(assumptions) + COMMON_ASSUMPTIONS, **kw)

prop("C09", "exploration",
     "each run draws a chunker configuration (FixedSize / RollSum / BuzHash; window 1..256; min <w, =w, >w; filter bits 1..24; max up to >1 MiB in the thorough tier), "
     "a source (random, constant, periodic, block pool, zero runs, 2-3 symbol alphabet, text; lengths on the configuration's edges) and a read schedule "
     "(fragment sizes 1..n, Pending at any poll); the chunk list must equal the single-read chunk list, tile the input, respect min/max, and equal the "
     "reference chunker that hashes every trailing window from its closed form. Non-trivial: the input produced at least two chunks; distinct: by trace hash "
     "(every read, its size, every Pending) combined with the chunk count.",
     {"quick": {"runs": 64000, "max_secs": 120}, "thorough": {"runs": 1600000, "max_secs": 900}},
     ["the BuzHash table/seed and RollSum constants are part of the definition (copied into the reference; pinned by bitar/tests/chunking.rs)"])

prop("C01", "exploration",
     "each run draws (source, chunker configuration, compression, hash length, buffered-chunks, metadata), a writer (bita compress from a file / from stdin, bitar create_archive), "
     "a cloner (bita clone local / HTTP, library clone local / HTTP) and, per command, a schedule of the blocking pool (eagerness 0/10/50/90/100 %, FIFO or drawn order), "
     "read fragmentation at the syscall seam / SimSource / stdin / HTTP body. No faults. Oracle: every command succeeds; the independent decoder reads the archive, finds the true size and "
     "Blake2b-512 and unpacks it to the source; the clone output equals the source. Non-trivial: the source has at least two chunks; distinct: by trace hash (all scheduler decisions, reads, "
     "requests) combined with chunk count, writer and cloner.",
     {"quick": {"runs": 24000, "max_secs": 150}, "thorough": {"runs": 700000, "max_secs": 1200}},
     ["bitar's temporary_file_override is never used (it cannot work: DESIGN.md O1)", "the anonymous temp file of create_archive is opened by the tempfile crate through raw syscalls and is not seen by the seam"])

FAM = ("a drawn archive (as C01) plus drawn seeds (0..3: edits of the source -- insert/delete/replace/move/duplicate/truncate/append/swap --, the source itself, empty, unrelated, "
       "chunk-permuted), seed files and/or stdin in drawn order, a drawn prior output (absent / existing file / faked block device >= source; related, permuted, unrelated, shorter, longer), "
       "--seed-output or not, through bita clone (syscall seam) or the library flow of examples/local-cloner.rs (SimFile/SimSource), local or simulated HTTP, under drawn pool schedules and read/body fragmentation; no faults. ")

prop("C02", "exploration",
     FAM + "Oracle: the clone succeeds and the output is byte-identical to the source (regular files also have the source's length). Truncated-hash collisions between different chunks (only possible for hash length < 8) are recognised and exempted. "
     "Non-trivial: at least one seed, at least two chunks, and the seeds supply some but not all chunks; distinct: trace hash + scenario shape.",
     {"quick": {"runs": 20000, "max_secs": 150}, "thorough": {"runs": 600000, "max_secs": 1200}},
     ["--verify-output is not combined with a block device larger than the source (it always reports a mismatch there: DESIGN.md O2)"])
prop("C03", "exploration",
     "two families, drawn 50/50. (a) " + FAM + "always with --seed-output / reorder_in_place on a prior output obtained by editing or permuting the source. "
     "(b) synthetic layouts at small scope driven into CloneOutput::reorder_in_place directly: 1..8 chunk identities with sizes from {1,2,3,5,8}; the source is a sequence of 0..10 identities, "
     "the prior output a sequence of 0..11 identities or garbage blobs (indexed or not), hash length in {4,8,16,33,64}; afterwards exactly the chunks the output still asks for are fed. "
     "Oracle: no panic/error; output == source (file length too for regular files); nothing left missing; a chunk present in the prior output and needed by the source is never left to be fetched. "
     "Non-trivial: a non-empty prior output, at least one write and (b) at least one reusable identity; distinct: (a) trace hash + shape, (b) the layout itself.",
     {"quick": {"runs": 60000, "max_secs": 150}, "thorough": {"runs": 3000000, "max_secs": 1500}},
     ["the during-run 'not destroyed before copied' clause is decided through its consequence: a destroyed reusable chunk is copied as garbage (in-place copies are not re-hashed) and shows in the final comparison"],
     exhaustive_note="family (b) is sampled, biased small; the evidence counts distinct layouts reached")
prop("C06", "exploration",
     FAM + "Observed: every byte range requested from the archive (HTTP: the scripted server's log; local CLI: read(2) on the archive fd at the syscall seam; local library: reads of the archive SimFile). "
     "Oracle: the multiset of bytes read equals the header region once plus the stored range of every chunk that the reference chunker does not find in a seed or in the prior output (when it is the seed), each once; in particular no byte of an available chunk is read. "
     "Non-trivial: at least two chunks and a seed or in-place prior output; distinct: trace hash + shape.",
     {"quick": {"runs": 20000, "max_secs": 150}, "thorough": {"runs": 600000, "max_secs": 1200}})
prop("C13", "exploration",
     FAM + "Observed: every write to the output as (position, bytes) -- lseek/write on the output fd at the syscall seam, or the SimFile log; writes that continue where the previous one ended are coalesced. "
     "Oracle: every extent tiles exactly into source chunk locations and carries those chunks' bytes; no location is written twice; no location that the reference scan of the prior output found already holding the right chunk is written; nothing at or beyond the source length. "
     "Non-trivial: at least two chunks and a seed or in-place prior output; distinct: trace hash + shape (incl. number of writes).",
     {"quick": {"runs": 20000, "max_secs": 150}, "thorough": {"runs": 600000, "max_secs": 1200}})
prop("C11", "exploration",
     "C01's compress runs (CLI from file / stdin, library; all schedules; metadata maps incl. empty and binary values). Oracle: the independent decoder checks magic, LE dictionary size, dictionary decodes, chunk-data offset == header length, "
     "Blake2b-512 trailer, file length == end of the last stored chunk, descriptors == the unique chunks of the reference chunker's chunk list in order of first occurrence (hash prefix, size), stored back-to-back from 0, stored size <= source size, "
     "every payload decodes (raw iff sizes equal) to a chunk with that hash, rebuild order == the chunk sequence, recorded size/checksum/parameters/hash length/compression/metadata == requested; bitar's Archive accessors and bita info --metadata-key report the same. "
     "Non-trivial: at least two chunks; distinct: trace hash + (chunks, unique chunks, metadata entries).",
     {"quick": {"runs": 24000, "max_secs": 150}, "thorough": {"runs": 700000, "max_secs": 1200}})
prop("C12", "exploration",
     "one (source, options) scenario is compressed 2..4 times by the CLI (file or stdin drawn each time) and 2..3 times by the library, each under an independently drawn pool schedule, buffered-chunks value in {1,2,3,8,64}, "
     "verbosity and input fragmentation. Oracle: all archives of a writer are byte-identical. Non-trivial: the source is longer than one average chunk; distinct: trace hash + archive size + run counts.",
     {"quick": {"runs": 6000, "max_secs": 150}, "thorough": {"runs": 200000, "max_secs": 1200}})

NOT_APPLICABLE = {
    "C10": "pure function of its input: quantifies over pairs of byte strings and configurations only; given C09 (same chunks under every read schedule) there is no schedule, clock, fault, crash or interleaving for a simulator to own. The mechanism it rests on (boundary decisions depend on the trailing window alone) is checked by C09's reference chunker, which is how F5 was found.",
}

TEXTS = {}
def text(pid, technique, level_text, level_note):
    TEXTS[pid] = dict(technique=technique, level_text=level_text, level_note=level_note)

text("C09", "deterministic simulation: seeded search over read schedules (fragmentation, Pending) of a simulated source, differential against a single-read run and a closed-form reference chunker",
     "Seeded exploration: tens of thousands (quick) to millions (thorough) of (configuration, input, read schedule) triples; every run checks schedule independence, tiling, size bounds and equality with an independent non-incremental definition of the boundary rule. Sampling, not proof; small windows/inputs are hit densely.",
     "Trusted: the reference chunker in /verif (closed-form RollSum/BuzHash window hashes, its own copy of the BuzHash table), blake2; real code: bitar chunker + futures-util; stub: the byte source (SimSource).")

text("C01", "deterministic simulation: seeded search over blocking-pool schedules and read fragmentations of the full compress -> clone pipeline (CLI and library, local and simulated HTTP), judged by an independent archive decoder",
     "Seeded exploration of end-to-end round trips under every completion order of hash/compress/write tasks the scheduler can produce (from an infinitely fast to an infinitely slow pool). Found F1 and F4 before they were fixed. Sampling, not proof.",
     "Trusted: RefFormat decoder (hand-written protobuf codec), blake2, brotli-decompressor, zstd, lzma; real: all of bitar and the CLI modules, futures-util, clap; port: tokio::fs::File; stub: blocking pool, stdin, reqwest/network.")

CLONE_NOTE = "Trusted: RefFormat decoder, reference chunker (scan of seeds / prior output), blake2; real: bitar + CLI modules + futures-util + clap; port: tokio::fs::File; stub: blocking pool, stdin, network, block device (regular file presented as S_IFBLK)."
text("C02", "deterministic simulation: seeded search over seed sets, seed orders, pool schedules and read fragmentations of clone (CLI at the syscall seam, library on simulated files)",
     "Seeded exploration; every successful clone must equal the source. Sampling, not proof.", CLONE_NOTE)
text("C03", "deterministic simulation: seeded search over prior output contents -- real chunking of edited files through --seed-output, and small-scope synthetic layouts driven into reorder_in_place on a simulated file with drawn read/write fragmentation",
     "Seeded exploration, dense at small scope (<= 8 identities, sizes {1,2,3,5,8}); found F2 before it was fixed. Sampling, not proof; the evidence counts distinct layouts.", CLONE_NOTE)
text("C06", "deterministic simulation: observation of every archive read at the simulated server / syscall seam / simulated file, compared with a reference clone model",
     "Seeded exploration with an exact multiset oracle over archive bytes; found F3 (block devices re-download everything) before it was fixed. Sampling, not proof.", CLONE_NOTE)
text("C13", "deterministic simulation: observation of every output write at the syscall seam / simulated file, compared with a reference clone model",
     "Seeded exploration with an exact oracle over (position, bytes) of every write; found F3's rewrite of in-place chunks on block devices. Sampling, not proof.", CLONE_NOTE)
text("C11", "deterministic simulation: archives written under seeded pool schedules judged by an independent decoder and reference chunker",
     "Seeded exploration; the decoder is written from header.rs' table and the .proto, so a consistent change of writer and reader is still caught. Sampling, not proof.",
     "Trusted: RefFormat (hand-written protobuf codec), reference chunker, blake2, brotli-decompressor, zstd, lzma; real: bitar writer, CLI writer, bitar reader (accessors), info_cmd; stub: blocking pool, stdin.")
text("C12", "deterministic simulation: the same compression repeated under independently seeded schedules, buffering levels and input deliveries; byte comparison",
     "Seeded exploration over schedules: from an infinitely fast to an infinitely slow blocking pool, FIFO or drawn completion order. Found F4 (schedule-dependent truncated archive) before it was fixed. Sampling, not proof.",
     "Real: both writers, futures-util buffered(); port: tokio::fs::File; stub: blocking pool, stdin; the library's anonymous temp file is a real file outside the seam.")
