#!/usr/bin/env python3
"""Run checks against a modified copy of the repository (sensitivity testing).

  tools/mutant.py <patch> <prop> [<prop> ...] [--tier quick] [--runs N] [--keep]

Creates a scratch git worktree of /repo under /tmp/bita-mut/<name>, applies the patch there,
points the shadow manifests at it (VERIF_REPO), runs the given checks with evidence and replay
files redirected to a scratch directory (VERIF_OUT), prints one line per property
(CAUGHT <class> / missed / error) and removes the worktree.
"""
import json, os, shutil, subprocess, sys, tempfile, time

HERE = os.path.dirname(os.path.abspath(__file__))
VERIF = os.path.dirname(HERE)


def main():
    a = sys.argv[1:]
    tier = "quick"
    runs = None
    keep = "--keep" in a
    a = [x for x in a if x != "--keep"]
    save = None
    if "--save-replays" in a:
        i = a.index("--save-replays"); save = a[i + 1]; del a[i:i + 2]
    if "--tier" in a:
        i = a.index("--tier"); tier = a[i + 1]; del a[i:i + 2]
    if "--runs" in a:
        i = a.index("--runs"); runs = a[i + 1]; del a[i:i + 2]
    patch = os.path.abspath(a[0])
    props = a[1:]
    name = os.path.splitext(os.path.basename(patch))[0][:40]
    base = os.environ.get("MUTANT_BASE", "/tmp/bita-mut")
    os.makedirs(base, exist_ok=True)
    # one mutant at a time: they share the private simulator copy
    import fcntl
    lock = open(os.path.join(base, "lock"), "w")
    fcntl.flock(lock, fcntl.LOCK_EX)
    wt = os.path.join(base, name)
    out = tempfile.mkdtemp(prefix="mut-out-", dir=base)
    subprocess.run(["git", "-C", "/repo", "worktree", "remove", "--force", wt], capture_output=True)
    r = subprocess.run(["git", "-C", "/repo", "worktree", "add", "--detach", wt, "HEAD"], capture_output=True, text=True)
    if r.returncode != 0:
        print("ERROR worktree:", r.stderr.strip()); return 2
    results = {}
    try:
        r = subprocess.run(["git", "-C", wt, "apply", "--whitespace=nowarn", patch], capture_output=True, text=True)
        if r.returncode != 0:
            print("ERROR patch does not apply:", r.stderr.strip()[:500]); return 2
        # a private copy of the simulator workspace (with its own target dir), so that the
        # real /verif/sim keeps pointing at /repo while mutants are being run
        simcopy = os.path.join(base, "simcopy")
        os.makedirs(simcopy, exist_ok=True)
        subprocess.run(["rsync", "-a", "--delete", "--exclude", "target", "--exclude", "bita/src/lib.rs", os.environ.get("MUTANT_SIM_SRC", os.path.join(VERIF, "sim")) + "/", simcopy + "/"], check=True)
        env = dict(os.environ, VERIF_REPO=wt, VERIF_OUT=out, VERIF_SIM=simcopy)
        for p in props:
            cmd = [os.path.join(VERIF, "check"), p, "--tier", tier]
            if runs:
                cmd += ["--runs", runs]
            t0 = time.time()
            r = subprocess.run(cmd, capture_output=True, text=True, env=env, cwd=VERIF)
            classes = []
            for line in r.stdout.splitlines():
                if line.startswith("VIOLATION"):
                    path = line.split("replay=")[1].strip()
                    try:
                        classes.append(json.load(open(path)).get("class"))
                    except Exception:
                        classes.append("?")
            if r.returncode == 1 and save:
                os.makedirs(save, exist_ok=True)
                for line in r.stdout.splitlines():
                    if line.startswith("VIOLATION"):
                        path = line.split("replay=")[1].strip()
                        try:
                            doc = json.load(open(path))
                            doc["witness_of"] = os.path.basename(patch)
                            doc["note"] = "recorded on a copy of the repository with this patch applied; replays without a violation on the repaired tree"
                            json.dump(doc, open(os.path.join(save, "%s-%s.json" % (name, p)), "w"), indent=1)
                        except Exception:
                            pass
                        break
            if r.returncode == 1:
                results[p] = "CAUGHT " + ", ".join(sorted(set(map(str, classes))))
            elif r.returncode == 0:
                results[p] = "missed"
            else:
                results[p] = "error rc=%d %s" % (r.returncode, r.stderr.strip().splitlines()[-1][:300] if r.stderr.strip() else "")
            print("%-6s %-8s %5.0fs  %s" % (p, name[:8], time.time() - t0, results[p]), flush=True)
    finally:
        if not keep:
            subprocess.run(["git", "-C", "/repo", "worktree", "remove", "--force", wt], capture_output=True)
            shutil.rmtree(out, ignore_errors=True)
    print(json.dumps({"patch": os.path.basename(patch), "results": results}))
    return 0


if __name__ == "__main__":
    sys.exit(main())
