#!/usr/bin/env python3
"""Write /verif/MANIFEST.json from tools/propsdb.py."""
import json, os, sys
HERE = os.path.dirname(os.path.abspath(__file__))
sys.path.insert(0, HERE)
from propsdb import PROPS, NOT_APPLICABLE, TEXTS

ALL = ["C%02d" % i for i in range(1, 18)]
checks = []
for pid in ALL:
    if pid not in PROPS:
        continue
    m = PROPS[pid]
    checks.append({
        "property_id": pid,
        "quick_cmd": "./check %s --tier quick" % pid,
        "thorough_cmd": "./check %s --tier thorough" % pid,
        "evidence_file": "/verif/evidence/%s.json" % pid,
        "replay_cmd_template": "./check --replay {path}",
        "engine": "bitasim",
        "level_claimed": {"category": m["level"], "text": TEXTS[pid]["level_text"], "design_ref": "DESIGN.md section 5, %s" % pid},
        "level_note": TEXTS[pid]["level_note"],
        "technique": TEXTS[pid]["technique"],
    })
na = [{"property_id": p, "reason": r} for p, r in NOT_APPLICABLE.items()]
for pid in ALL:
    if pid not in PROPS and pid not in NOT_APPLICABLE:
        na.append({"property_id": pid, "reason": "not claimed yet: the simulated check for this property is still being built (see DESIGN.md section 9)"})
manifest = {
    "version": 1,
    "setup_cmd": "cd /verif && python3 tools/gen_shadow.py && cd sim && CARGO_NET_OFFLINE=true cargo build --release --offline -p worker",
    "hooks": {
        "guard": "oll3_bita_verif",
        "enable": "no source hooks: /repo is compiled unmodified through shadow manifests in /verif/sim (facade crates named tokio and reqwest; libc symbols interposed at link time in the worker binary). The cfg name is reserved; nothing in /repo tests it.",
        "baseline_off_cmd": "cd /repo && cargo test --workspace --no-fail-fast --offline",
        "source_commits": [],
        "add_only": True,
    },
    "engines": [{
        "name": "bitasim",
        "path": "/verif/sim",
        "serves_properties": [c["property_id"] for c in checks],
        "kind_free_text": "deterministic simulation with fault injection: single-threaded executor owning the blocking pool, timers, virtual clock, simulated network and a syscall seam; one seeded tape per run; seeded search over schedules and fault sequences; tape minimisation and exact replay",
    }],
    "checks": checks,
    "not_applicable": na,
    "notes": "Exit 0 = held on everything explored; exit 1 + VIOLATION line = violation with replay file; exit 2 = harness error (build failure, non-deterministic replay, dead worker). VERIF_SEED and VERIF_TIER are honoured. known_findings.json lists genuine defects (fixed / known).",
}
json.dump(manifest, open(os.path.join(HERE, "..", "MANIFEST.json"), "w"), indent=1)
print("MANIFEST.json: %d checks, %d not claimed" % (len(checks), len(na)))
