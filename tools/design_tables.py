#!/usr/bin/env python3
"""Markdown tables for DESIGN.md section 12 from mutants/RESULTS.json and seeded/RESULTS.json."""
import json, os
V = os.path.dirname(os.path.dirname(os.path.abspath(__file__)))

def row(name, r, note=""):
    res = r["results"]
    caught = [p for p in r["expected"] if str(res.get(p, "")).startswith("CAUGHT")]
    missed = [p for p in r["expected"] if p not in caught]
    cls = []
    for p in caught:
        c = res[p][len("CAUGHT "):]
        cls.append("%s" % c.split(", ")[0].replace("|", "/"))
    return "| %s | %s | %s | %s |" % (name, ", ".join(caught) or "-", ", ".join(missed) or "-", "; ".join(cls)[:160])

def main():
    m = json.load(open(os.path.join(V, "mutants", "RESULTS.json")))
    print("| change | caught by (quick tier) | not caught by | first violation class |\n|---|---|---|---|")
    for k in sorted(m):
        print(row(k[:70], m[k]))
    print()
    s = json.load(open(os.path.join(V, "seeded", "RESULTS.json")))
    print("| id | what the change needs to manifest | caught by (quick tier) | not caught by | first violation class |\n|---|---|---|---|---|")
    for k in sorted(s):
        key = k.replace("seeded-", "")
        meta = json.load(open(os.path.join(V, "seeded", key, "meta.json")))
        r = s[k]
        res = r["results"]
        caught = [p for p in r["expected"] if str(res.get(p, "")).startswith("CAUGHT")]
        missed = [p for p in r["expected"] if p not in caught]
        cls = "; ".join(res[p][len("CAUGHT "):].split(", ")[0] for p in caught)[:150]
        print("| %s | %s | %s | %s | %s |" % (key, meta["needs_to_manifest"][:230].replace("|", "/"), ", ".join(caught) or "-", ", ".join(missed) or "-", cls))

def update():
    """splice the tables into DESIGN.md between the TABLES markers"""
    import io, contextlib
    buf = io.StringIO()
    with contextlib.redirect_stdout(buf):
        main()
    d = os.path.join(V, "DESIGN.md")
    t = open(d).read()
    a, b = "<!-- BEGIN TABLES (tools/design_tables.py --update) -->", "<!-- END TABLES -->"
    i, j = t.index(a) + len(a), t.index(b)
    open(d, "w").write(t[:i] + "\n\n" + buf.getvalue() + "\n" + t[j:])


if __name__ == "__main__":
    import sys
    update() if "--update" in sys.argv else main()
