#!/usr/bin/env python3
"""Sensitivity suite: every patch in /verif/mutants (and /verif/seeded/*/patch.diff) is applied
to a scratch copy of the repository and the checks that should notice it are run, together with
a control check that should stay green. Results go to /verif/mutants/RESULTS.json.

  tools/sensitivity.py [name-substring ...] [--all-props]
"""
import glob, json, os, subprocess, sys, time
HERE = os.path.dirname(os.path.abspath(__file__))
VERIF = os.path.dirname(HERE)

# patch name fragment -> (properties expected to catch it, control properties expected green)
EXPECT = {
    "revert-d8011f9": (["C09"], ["C08"]),
    "revert-2923393": (["C01"], ["C09"]),
    "revert-7c9ed8c": (["C01", "C11", "C12"], ["C09"]),
    "revert-b5f0fb5": (["C03"], ["C08"]),
    "revert-71cca17": (["C06", "C13"], ["C09"]),
    "revert-377e032": (["C05"], ["C09"]),
    "revert-e0959cf": (["C15"], ["C09"]),
    "revert-0cbc6a1": (["C15"], ["C09"]),
    "revert-c6b3543": (["C15"], ["C09"]),
    "revert-5daaefa+ef72096": (["C15"], ["C09"]),
    "revert-ddea758": (["C15"], ["C08"]),
    "revert-f66c2ca": (["C15"], ["C09"]),
    "revert-8cec961": (["C15"], ["C09"]),
    "revert-3d8d71f": (["C01"], ["C09"]),
    "m-compress-cli-unordered": (["C01", "C11", "C12"], ["C08"]),
    "m-compress-lib-unordered": (["C01", "C11", "C12"], ["C08"]),
    "m-no-strip-in-place": (["C13"], ["C09"]),
    "m-range-end-off-by-one": (["C07", "C08"], ["C09"]),
    "m-resume-no-offset-advance": (["C08"], ["C09"]),
    "m-store-raw-rule-gt": (["C01", "C11"], ["C09"]),
    "m-clone-no-chunk-verify": (["C04"], ["C09"]),
    "m-header-checksum-not-checked": (["C04", "C14"], ["C09"]),
    "m-verify-header-ignored": (["C04", "C14"], ["C09"]),
    "m-temp-file-not-removed": (["C16"], ["C09"]),
    "m-retry-count-not-decremented": (["C08"], ["C09"]),
    "m-adjacent-run-broken": (["C07"], ["C09"]),
    "m-chunker-offset-reset-on-refill": (["C09"], ["C08"]),
    "m-output-opened-before-header-check": (["C14"], ["C09"]),
    "m-seed-opened-read-write": (["C16"], ["C09"]),
    "m-reader-assumes-contiguous": (["C17"], ["C01"]),
    "m-clone-truncates-on-force": (["C14"], ["C09"]),
    "m-set-len-skipped-when-shorter": (["C03"], ["C09"]),
    "m-hash-truncate-lookup": (["C06"], ["C09"]),
    "m-retry-delay-in-millis": (["C08"], ["C09"]),
}


SEEDED = {
    "C01-A": ["C01", "C11"], "C01-B": ["C01", "C11"], "C02-A": ["C02"], "C02-B": ["C05", "C02"], "C03-A": ["C03"], "C03-B": ["C03", "C06"],
    "C05-A": ["C05"], "C05-B": ["C05"], "C06-A": ["C06", "C03"], "C06-B": ["C06", "C07"], "C08-A": ["C08"], "C08-B": ["C08"],
    "C09-A": ["C09", "C12"], "C09-B": ["C09"], "C12-A": ["C12", "C11"], "C12-B": ["C12", "C09"], "C17-A": ["C17"], "C17-B": ["C17"],
    "C04-A": ["C04"], "C04-B": ["C04"], "C07-A": ["C07"], "C07-B": ["C07"], "C11-A": ["C11"], "C11-B": ["C11"], "C13-A": ["C13"], "C13-B": ["C13"],
    "X06-A": ["C06"], "X06-B": ["C08", "C06"], "X08-A": ["C08"], "X08-B": ["C08"], "X02-A": ["C02", "C03"], "X02-B": ["C03", "C02"],
    "X05-A": ["C05"], "X05-B": ["C05"], "X01-A": ["C01"], "X01-B": ["C01"], "X03-A": ["C03"], "X03-B": ["C03"],
    "Y16-A": ["C16"], "Y16-B": ["C16"], "Y14-A": ["C14"], "Y14-B": ["C14"], "Y11-A": ["C11", "C01"], "Y11-B": ["C11"], "Y15-A": ["C15", "C08"], "Y15-B": ["C15"],
    "Y12-A": ["C12"], "Y12-B": ["C12"], "Y13-A": ["C13"], "Y13-B": ["C13"], "Y17-A": ["C17"], "Y17-B": ["C17"], "Y04-A": ["C04"], "Y04-B": ["C04"],
    "Z01-A": ["C01"], "Z01-B": ["C02", "C01", "C03"], "Z02-A": ["C03", "C02"], "Z02-B": ["C03", "C02"], "Z05-A": ["C05", "C03"], "Z05-B": ["C05", "C03"],
    "Z06-A": ["C06"], "Z06-B": ["C06", "C07"], "Z07-A": ["C07"], "Z07-B": ["C07"], "Z08-A": ["C08"], "Z08-B": ["C08"], "Z11-A": ["C11"], "Z11-B": ["C11", "C01"],
    "Z12-A": ["C12", "C11"], "Z12-B": ["C12"], "Z13-A": ["C13", "C03"], "Z13-B": ["C13", "C03"], "Z14-A": ["C14"], "Z14-B": ["C14"], "Z15-A": ["C15"], "Z15-B": ["C15"],
    "Z16-A": ["C16"], "Z16-B": ["C16"], "Z17-A": ["C17"], "Z17-B": ["C17"], "Z03-A": ["C03"], "Z03-B": ["C03"], "Z04-A": ["C04"], "Z04-B": ["C04"], "Z09-A": ["C09"], "Z09-B": ["C09"],
    "W01-A": ["C01"], "W01-B": ["C17", "C01"], "W02-A": ["C03", "C02"], "W02-B": ["C03", "C02"], "W03-A": ["C03"], "W03-B": ["C03", "C02"], "W04-A": ["C04", "C14"], "W04-B": ["C04"],
    "W05-A": ["C05", "C01"], "W05-B": ["C05", "C03"], "W06-A": ["C06"], "W06-B": ["C06"], "W07-A": ["C07", "C17"], "W07-B": ["C07", "C06"], "W08-A": ["C08"], "W08-B": ["C08"],
    "W09-A": ["C09"], "W09-B": ["C09"], "W11-A": ["C11"], "W11-B": ["C11", "C01"], "W12-A": ["C12", "C01"], "W12-B": ["C12", "C11"], "W13-A": ["C13", "C03"], "W13-B": ["C13"],
    "W14-A": ["C14", "C15"], "W14-B": ["C14"], "W15-A": ["C15"], "W15-B": ["C15"], "W16-A": ["C16"], "W16-B": ["C16"], "W17-A": ["C17"], "W17-B": ["C17"],
    "V01-A": ["C01", "C11"], "V01-B": ["C03", "C01"], "V02-A": ["C03", "C02"], "V02-B": ["C03", "C02"], "V03-A": ["C03"], "V03-B": ["C03"], "V04-A": ["C04"], "V04-B": ["C04"],
    "V05-A": ["C05", "C03"], "V05-B": ["C05", "C01", "C02"], "V06-A": ["C06"], "V06-B": ["C06"], "V07-A": ["C07", "C11", "C12"], "V07-B": ["C07", "C06"], "V08-A": ["C08"], "V08-B": ["C08", "C17"],
    "V09-A": ["C09", "C17"], "V09-B": ["C09"], "V11-A": ["C11", "C01"], "V11-B": ["C11"], "V12-A": ["C12", "C01", "C11"], "V12-B": ["C12"], "V13-A": ["C13", "C03"], "V13-B": ["C13", "C17"],
    "V14-A": ["C14"], "V14-B": ["C14"], "V15-A": ["C15"], "V15-B": ["C15", "C08"], "V16-A": ["C16"], "V16-B": ["C16"], "V17-A": ["C17", "C03", "C02"], "V17-B": ["C17"],
    "U01-A": ["C08", "C01"], "U01-B": ["C01", "C11"], "U03-A": ["C03", "C02"], "U03-B": ["C05", "C03"], "U05-A": ["C03", "C05"], "U05-B": ["C05"], "U06-A": ["C06"], "U06-B": ["C06"],
    "U07-A": ["C06", "C07"], "U07-B": ["C06", "C07"], "U08-A": ["C08"], "U08-B": ["C08"], "U11-A": ["C11", "C01"], "U11-B": ["C11", "C17"], "U12-A": ["C12", "C01"], "U12-B": ["C01", "C12"],
    "U13-A": ["C13", "C03"], "U13-B": ["C03", "C13"], "U14-A": ["C14", "C04"], "U14-B": ["C04", "C14"], "U15-A": ["C15"], "U15-B": ["C15"], "U16-A": ["C16"], "U16-B": ["C16"], "U17-A": ["C17", "C01"], "U17-B": ["C01", "C17"],
    "T01-A": ["C08", "C01"], "T01-B": ["C03", "C01", "C02"], "T02-A": ["C02", "C06"], "T02-B": ["C05", "C02"], "T03-A": ["C05", "C03"], "T03-B": ["C05", "C03"],
    "T04-A": ["C04"], "T04-B": ["C04", "C08"], "T05-A": ["C05"], "T05-B": ["C05"], "T06-A": ["C06"], "T06-B": ["C08", "C06"], "T07-A": ["C08", "C07"], "T07-B": ["C07", "C08"],
    "T08-A": ["C08"], "T08-B": ["C08"], "T09-A": ["C09"], "T09-B": ["C09"], "T11-A": ["C01", "C11"], "T11-B": ["C11"], "T12-A": ["C12"], "T12-B": ["C12"],
    "T13-A": ["C05", "C13"], "T13-B": ["C05", "C13"], "T14-A": ["C14"], "T14-B": ["C14"], "T15-A": ["C15", "C08"], "T15-B": ["C15", "C08"], "T16-A": ["C16"], "T16-B": ["C16"],
    "T17-A": ["C08", "C17"], "T17-B": ["C08", "C17"],
    "S16-A": ["C16"], "S16-B": ["C16"], "S08-A": ["C08"], "S08-B": ["C07", "C08"], "S14-A": ["C14", "C15"], "S14-B": ["C14", "C04"], "S13-A": ["C13", "C03"], "S13-B": ["C05", "C13"],
    "S01-A": ["C01"], "S01-B": ["C05", "C01"], "S03-A": ["C03"], "S03-B": ["C05", "C03"], "S12-A": ["C12", "C11"], "S12-B": ["C12", "C11", "C01"], "S04-A": ["C04"], "S04-B": ["C04"],
    "S06-A": ["C06", "C03"], "S06-B": ["C06", "C07"], "S05-A": ["C05", "C03"], "S05-B": ["C05"], "S05-C": ["C05"],
    "C14-A": ["C14"], "C14-B": ["C14"], "C15-A": ["C15"], "C15-B": ["C15"], "C16-A": ["C16"], "C16-B": ["C16"],
}


def main():
    args = [a for a in sys.argv[1:] if not a.startswith("--")]
    patches = sorted(glob.glob(os.path.join(VERIF, "mutants", "*.patch")))
    if "--seeded" in sys.argv:
        patches = []
        for d in sorted(glob.glob(os.path.join(VERIF, "seeded", "*"))):
            if not os.path.isdir(d):
                continue
            key = os.path.basename(d)
            link = os.path.join("/tmp/bita-mut", "seeded-%s.patch" % key)
            os.makedirs("/tmp/bita-mut", exist_ok=True)
            import shutil
            shutil.copy(os.path.join(d, "patch.diff"), link)
            patches.append(link)
            # control: a library-level check the change cannot reach
            EXPECT["seeded-" + key] = (SEEDED.get(key, [key.split("-")[0]]), ["C08" if key.startswith(("C09", "C12")) else "C09"])
    res_path = os.path.join(VERIF, "seeded" if "--seeded" in sys.argv else "mutants", "RESULTS.json")
    results = json.load(open(res_path)) if os.path.exists(res_path) else {}
    # --shard i/n: every n-th change, with a private scratch area, so that several can run side by side
    shard = next((a for a in sys.argv[1:] if a.startswith("--shard=")), None)
    env = dict(os.environ)
    if shard:
        i, n = [int(x) for x in shard.split("=")[1].split("/")]
        patches = patches[i::n]
        env["MUTANT_BASE"] = "/tmp/bita-mut-%d" % i
    no_controls = "--no-controls" in sys.argv
    for patch in patches:
        name = os.path.splitext(os.path.basename(patch))[0]
        if args and not any(a in name for a in args):
            continue
        key = next((k for k in EXPECT if name.startswith(k)), None)
        if key is None:
            print("no expectation for", name)
            continue
        owners, controls = EXPECT[key]
        if no_controls:
            controls = []
        t0 = time.time()
        r = subprocess.run([sys.executable, os.path.join(HERE, "mutant.py"), patch] + owners + controls, capture_output=True, text=True, env=env)
        try:
            out = json.loads(r.stdout.strip().splitlines()[-1])["results"]
        except Exception:
            out = {"error": (r.stdout + r.stderr)[-400:]}
        results[name] = {"expected": owners, "controls": controls, "results": out, "secs": round(time.time() - t0)}
        caught = [p for p in owners if str(out.get(p, "")).startswith("CAUGHT")]
        noisy = [p for p in controls if not str(out.get(p, "")) == "missed"]
        print("%-62s caught by %-16s missed by %-12s control alarms %s" % (name[:62], ",".join(caught) or "-", ",".join(p for p in owners if p not in caught) or "-", ",".join(noisy) or "-"), flush=True)
        # several shards share the results file: merge under a lock
        import fcntl
        with open(res_path + ".lock", "w") as lk:
            fcntl.flock(lk, fcntl.LOCK_EX)
            cur = json.load(open(res_path)) if os.path.exists(res_path) else {}
            cur[name] = results[name]
            json.dump(cur, open(res_path, "w"), indent=1)


if __name__ == "__main__":
    main()
